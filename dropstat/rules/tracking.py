"""Rules over ``DropletTrackList.from_emulsion_time_course`` and ``DropletTrack.append``
(shared by C06 — conservation — and C07 — identity)."""

from __future__ import annotations

import ast

from ..astutil import U, view, arg_or_kw, kwarg, names_in, stmt_index, compare_parts, MUTATORS
from ..cfg import walk_no_nested
from ..model import dotted, AnchorMissing

TR = "droplets.droplet_tracks"
OUTER = f"{TR}.DropletTrackList.from_emulsion_time_course"


def matchers(ctx):
    """{'overlap': FuncInfo, 'distance': FuncInfo} by the method test guarding the def"""
    m = ctx.model
    outer = m.func(OUTER)
    ov = view(m, outer)
    si = stmt_index(ov)
    out = {}
    for g in m.all_functions():
        if g.parent is outer and g.name == "match_tracks":
            for test, pol in si.guards(g.node):
                cp = compare_parts(test)
                if cp and pol and U(cp[0]) == "method" and isinstance(cp[2], ast.Constant):
                    out[cp[2].value] = g
    for k in ("overlap", "distance"):
        if k not in out:
            raise AnchorMissing(f"matcher for method '{k}' not found in {OUTER}")
    return outer, out


# ----------------------------------------------------------------------------- stores
def store_actions(fv, droplet_names, time_name, tracks_name="tracks"):
    """Store calls: (call node, kind, droplet expr, time expr)"""
    out = []
    for c in fv.calls():
        if not (isinstance(c.func, ast.Attribute) and c.func.attr == "append"):
            continue
        recv = U(c.func.value)
        arg0 = fv.expand(c.args[0], c) if (len(c.args) == 1 and isinstance(c.args[0], ast.Name)) else (c.args[0] if c.args else None)
        if recv == tracks_name and len(c.args) == 1 and isinstance(arg0, ast.Call) and (dotted(arg0.func) or "").endswith("DropletTrack"):
            inner = arg0
            d = kwarg(inner, "droplets") or (inner.args[0] if inner.args else None)
            t = kwarg(inner, "times") or (inner.args[1] if len(inner.args) > 1 else None)
            dd = d.elts[0] if isinstance(d, ast.List) and len(d.elts) == 1 else None
            tt = t.elts[0] if isinstance(t, ast.List) and len(t.elts) == 1 else None
            out.append((c, "new", dd, tt))
        elif len(c.args) >= 1 and (kwarg(c, "time") is not None or len(c.args) == 2):
            out.append((c, "extend", c.args[0], kwarg(c, "time") or c.args[1]))
    return out


def paths_through_body(fv, loop_stmt):
    """acyclic paths through one iteration of a for-loop body: from the loop head along
    the 'iter' edge until the head is reached again (or the function is left)"""
    head = fv.node_of(loop_stmt)
    starts = [(n, lab) for n, lab in head.succ if lab == "iter"]
    paths = []
    for n, lab in starts:
        for p in fv.cfg.paths(n, {head, fv.cfg.exit, fv.cfg.raise_exit}):
            paths.append(p)
    return paths


def check_overlap_matcher(ctx, rules=("PATHCOUNT", "TIME", "CONT")):
    m = ctx.model
    outer, ms = matchers(ctx)
    fi = ms["overlap"]
    fv = view(m, fi)
    site = fi.qualname + "[overlap]"
    em_p, alive_p, time_p = (fi.params + [None] * 3)[:3]
    loops = [s for s in fv.statements() if isinstance(s, ast.For) and U(s.iter) == em_p]
    if len(loops) != 1 or not isinstance(loops[0].target, ast.Name):
        ctx.undecided("PATHCOUNT", site, fi, "loop over the frame's droplets not found")
        return
    lp = loops[0]
    dv = lp.target.id
    stores = store_actions(fv, {dv}, time_p)
    store_nodes = {fv.node_of(c): (c, kind, d, t) for c, kind, d, t in stores}
    paths = paths_through_body(fv, lp)
    counts = set()
    worst = None
    for p in paths:
        k = sum(1 for n, _ in p if n in store_nodes)
        counts.add(k)
        if k != 1:
            worst = (k, p)
    if "PATHCOUNT" in rules:
        ctx.decide(counts == {1}, "PATHCOUNT", site, (fi, lp),
                   f"every one of the {len(paths)} paths through the per-droplet loop stores the droplet exactly once",
                   f"a path through the per-droplet loop performs {worst[0] if worst else '?'} store(s): the droplet is {'lost' if worst and worst[0] == 0 else 'duplicated'} on that path "
                   f"(path: {' → '.join(repr(n) for n, _ in (worst[1] if worst else [])[:6])})")
    for c, kind, d, t in stores:
        tag = f"{site}:store[{kind}]"
        okd = d is not None and U(d) == dv
        okt = t is not None and U(t) == time_p
        if "TIME" in rules:
            ctx.decide(okd and okt, "TIME", tag, (fi, c), f"stores the loop's droplet stamped with `{time_p}`",
                       f"`{U(c)[:80]}` does not store the current droplet `{dv}` with the frame time `{time_p}`")
    # continuation rule
    if "CONT" in rules:
        from ..astutil import filtered_collection, symbolic_paths, truth_of

        ext = [c for c, kind, d, t in stores if kind == "extend"]
        new = [c for c, kind, d, t in stores if kind == "new"]
        ok = False
        detail = "no continuation store"
        if len(ext) == 1:
            c = ext[0]
            recv = U(c.func.value)
            if isinstance(c.func.value, ast.Name):
                # `(t,) = L; t.append(…)` / `t = L[0]; t.append(…)` ≡ `L[0].append(…)`
                r_ = fv.single_def_value(c.func.value.id, c)
                if r_ is not None and isinstance(r_[0], ast.Subscript) and isinstance(r_[0].value, ast.Name) and U(r_[0].slice) == "0":
                    recv = U(r_[0])
            coll = recv[:-3] if recv.endswith("[0]") else None
            detail = f"continuation receiver `{recv}`"
            if coll is not None:
                test = f"len({coll}) == 1"
                ext_ok = all(truth_of(dec, test) is True for dec, _ in symbolic_paths(fv, c, [c.args[0]], stop=(coll,)))
                new_ok = bool(new) and all(truth_of(dec, test) is False for nc in new for dec, _ in symbolic_paths(fv, nc, [nc.args[0]], stop=(coll,)))
                fc = filtered_collection(fv, coll, c)
                okf = fc is not None and fc[0] == alive_p and fc[1] == f"_.last.overlaps({dv}, grid=grid)" and any(x is fc[2] for x in ast.walk(lp))
                ok = ext_ok and new_ok and okf
                detail = f"continuation iff `{test}`: {ext_ok}; new track otherwise: {new_ok}; candidate list = alive tracks whose last droplet overlaps the droplet (fresh per droplet): {okf} ({fc[:2] if fc else None})"
        ctx.decide(ok, "CONT", site, (fi, ext[0]) if ext else fi,
                   "a droplet continues a track iff exactly one alive track's last droplet overlaps it; otherwise it starts a new track",
                   "single-overlap continuation rule not satisfied: " + detail)


def check_distance_matcher(ctx, rules=("PATHCOUNT", "TIME", "INDEX", "GREEDY", "CUTOFF")):
    m = ctx.model
    outer, ms = matchers(ctx)
    fi = ms["distance"]
    fv = view(m, fi)
    si = stmt_index(fv)
    site = fi.qualname + "[distance]"
    em_p, alive_p, time_p = (fi.params + [None] * 3)[:3]
    cd = [c for c in fv.calls() if (fv.callee(c) or "").endswith("distance.cdist")]
    if len(cd) != 1:
        ctx.violate("GREEDY", site, fi, "no pairwise distance matrix (cdist) between the alive tracks and the frame's droplets")
        return
    cd = cd[0]
    st = si.statement(cd)
    D = st.targets[0].id if isinstance(st, ast.Assign) and isinstance(st.targets[0], ast.Name) else None
    from ..astutil import aliases as _aliases, canon_guards, canon_want

    Ds = _aliases(fv, D) if D else set()
    if D and len(Ds) > 1:
        # the matrix as the matching loop names it (a helper's local was copied into it)
        used = [n.id for n in ast.walk(fi.node) if isinstance(n, ast.Name) and n.id in Ds and n.id != D]
        if used:
            D = max(set(used), key=used.count)
    rows, cols = [], []
    for a, acc in ((cd.args[0], rows), (cd.args[1], cols)):
        ex = fv.expand(a, cd)
        if isinstance(ex, ast.ListComp) and len(ex.generators) == 1:
            acc.extend([U(ex.generators[0].iter), U(ex.elt), ex.generators[0].target.id if isinstance(ex.generators[0].target, ast.Name) else "?"])
    # ---- GREEDY: global arg-min, stop on inf
    um = [c for c in fv.calls() if (fv.callee(c) or "").endswith("unravel_index")]
    pair = None
    if um:
        c = um[0]
        a0 = fv.expand(c.args[0], c, stop=(D,), allow_mutated=True) if c.args else None
        glob = isinstance(a0, ast.Call) and (((fv.callee(a0) or "").endswith("numpy.argmin") and len(a0.args) == 1 and U(a0.args[0]) == D and not a0.keywords)
                                             or (isinstance(a0.func, ast.Attribute) and a0.func.attr == "argmin" and U(a0.func.value) == D and not a0.args and not a0.keywords))
        # (the shape of the matrix does not change while rows and columns are overwritten: a hoisted `shape = D.shape` is the same value)
        shp = len(c.args) > 1 and U(fv.expand(c.args[1], c, stop=(D,), allow_mutated=True)) == f"{D}.shape"
        s_um = si.statement(c)
        if isinstance(s_um, ast.Assign) and isinstance(s_um.targets[0], ast.Tuple) and len(s_um.targets[0].elts) == 2:
            pair = tuple(e.id for e in s_um.targets[0].elts)
        wl = si.enclosing(c, (ast.While,))
        in_loop = wl is not None
        brk = False
        if wl is not None and pair:
            for s in ast.walk(wl[0]):
                if isinstance(s, ast.If) and s.body and isinstance(s.body[0], ast.Break):
                    t = U(s.test)
                    if D not in names_in(s.test):
                        # the minimal distance read into a temporary: resolved when the matrix is not written between the read and the test
                        tx = fv.expand(s.test, s, stop=(D,) + tuple(pair), allow_mutated=True)
                        lo = min((d_.stmt.lineno for nm_ in names_in(s.test) for d_ in fv.defs_reaching(nm_, s) if d_.stmt is not None and hasattr(d_.stmt, "lineno")), default=s.lineno)
                        wr = [w_ for w_ in ast.walk(wl[0]) if isinstance(w_, ast.Subscript) and isinstance(w_.ctx, ast.Store) and U(w_.value) == D and lo <= w_.lineno <= s.lineno]
                        if not wr:
                            t = U(tx)
                    if t in (f"np.isinf({D}[{pair[0]}, {pair[1]}])", f"not np.isfinite({D}[{pair[0]}, {pair[1]}])", f"{D}[{pair[0]}, {pair[1]}] == np.inf"):
                        brk = True
        if "GREEDY" in rules:
            ctx.decide(bool(glob and shp and pair and in_loop and brk), "GREEDY", site, (fi, c),
                       "links are chosen by repeatedly taking the global arg-min of the remaining distance matrix until only ∞ is left",
                       "the next link is not the arg-min over the whole remaining distance matrix (np.unravel_index(np.argmin(D), D.shape) in a loop ending at ∞)")
    elif "GREEDY" in rules:
        ctx.violate("GREEDY", site, (fi, cd), "links are not chosen as the globally closest remaining pair (no arg-min over the whole distance matrix): with distinct distances the result differs from repeatedly joining the closest pair")
    if not pair:
        if "INDEX" in rules and "GREEDY" not in rules:
            ctx.violate("INDEX", site + ":link", (fi, cd), "the (track, droplet) index pair of a link is not taken from the arg-min of the remaining distance matrix "
                        "(np.unravel_index(np.argmin(D), D.shape)): index pairs computed ahead of the row/column invalidation go stale, so a droplet or a track can be linked twice")
        return
    r, c_ = pair
    # ---- INDEX: r ↔ rows ↔ alive tracks, c ↔ columns ↔ frame droplets
    stores = store_actions(fv, set(), time_p)
    ext = [(c, d, t) for c, kind, d, t in stores if kind == "extend"]
    new = [(c, d, t) for c, kind, d, t in stores if kind == "new"]
    if "INDEX" in rules:
        ok_rows = rows and rows[0] == alive_p and rows[1] == f"{rows[2]}.last.position"
        ok_cols = cols and cols[0] == em_p and cols[1] == f"{cols[2]}.position"
        ctx.decide(bool(ok_rows and ok_cols), "INDEX", site + ":matrix", (fi, cd),
                   "rows = last positions of the alive tracks, columns = positions of the frame's droplets",
                   f"distance matrix is built from rows {rows[:2]} and columns {cols[:2]}; expected the alive tracks' last positions × the frame's droplet positions")
        if len(ext) == 1:
            c, d, t = ext[0]
            recv_ = c.func.value
            if isinstance(recv_, ast.Name):  # a temporary naming the selected track
                rr_ = fv.single_def_value(recv_.id, c)
                if rr_ is not None:
                    recv_ = rr_[0]
            d_ = fv.expand(d, c, stop=(em_p, c_)) if isinstance(d, ast.Name) else d
            ok = U(recv_) == f"{alive_p}[{r}]" and U(d_) == f"{em_p}[{c_}]"
            ctx.decide(ok, "INDEX", site + ":link", (fi, c), f"row index `{r}` selects the track, column index `{c_}` the droplet",
                       f"`{U(c)[:70]}`: the row index `{r}` must select the alive track and the column index `{c_}` the frame's droplet")
        else:
            ctx.violate("INDEX", site + ":link", fi, f"expected one linking store in the matching loop, found {len(ext)}")
        # bookkeeping set and invalidation
        adds = [x for x in fv.calls() if isinstance(x.func, ast.Attribute) and x.func.attr == "add" and len(x.args) == 1]
        okadd = len(adds) == 1 and U(adds[0].args[0]) == c_
        setname = U(adds[0].func.value) if adds else None
        if setname:
            init = [s for s in fi.node.body if isinstance(s, (ast.Assign, ast.AnnAssign)) and U(s.targets[0] if isinstance(s, ast.Assign) else s.target) == setname]
            fresh = len(init) == 1 and U(init[0].value) in ("set()", "set([])")
            ctx.decide(fresh, "INDEX", site + ":matched-set-fresh", (fi, init[0]) if init else (fi, adds[0]),
                       "the matched set starts empty for every frame",
                       f"the set `{setname}` of matched droplet indices is not initialised as an empty set at the top of the per-frame matcher: indices matched in earlier frames persist, and droplets with those indices that stay unmatched in a later frame are silently dropped")
        ctx.decide(okadd, "INDEX", site + ":matched-set", (fi, adds[0]) if adds else fi, f"the matched set records the droplet (column) index `{c_}`",
                   f"the matched set records `{U(adds[0].args[0]) if adds else '?'}`; it must record the index `{c_}` of the matched droplet within the frame (the final loop tests droplet indices)")
        inval = {}
        for s in fv.statements():
            if isinstance(s, ast.Assign) and isinstance(s.targets[0], ast.Subscript) and U(s.targets[0].value) == D and U(s.value) in ("np.inf", "math.inf", "float('inf')") \
                    and isinstance(s.targets[0].slice, ast.Tuple):
                inval[U(s.targets[0].slice).strip("()").replace(" ", "")] = s
        okinv = f"{r},:" in inval
        okinv2 = f":,{c_}" in inval
        ctx.decide(okinv and okinv2, "INDEX", site + ":invalidate", (fi, list(inval.values())[0]) if inval else fi,
                   f"row `{r}` and column `{c_}` of the matched pair are set to ∞ (each track and droplet is linked at most once)",
                   f"after a link the matrix entries set to ∞ are {sorted(inval)}; row `{r}` and column `{c_}` must both be invalidated, otherwise a track or droplet is linked twice")
        # all four actions in one block (same path)
        if len(ext) == 1 and adds and len(inval) >= 2:
            blk = [si.parent.get(id(si.statement(x))) for x in (ext[0][0], adds[0])] + [si.parent.get(id(s)) for s in inval.values()]
            same = len({(id(p[0]), p[1]) for p in blk if p}) == 1
            ctx.decide(same, "PATHCOUNT", site + ":link-block", (fi, ext[0][0]),
                       "link, bookkeeping and invalidation happen together on every path",
                       "link, bookkeeping (matched set) and invalidation are not executed together: a linked droplet can also start a new track or be linked again")
        # final loop
        if len(new) == 1:
            c, d, t = new[0]
            lpf = si.enclosing(c, (ast.For,))
            ok = False
            if lpf is not None:
                lp = lpf[0]
                it = lp.iter
                ok = isinstance(it, ast.Call) and dotted(it.func) == "enumerate" and len(it.args) == 1 and U(it.args[0]) == em_p and isinstance(lp.target, ast.Tuple) and len(lp.target.elts) == 2
                if ok:
                    iv, dvn = U(lp.target.elts[0]), U(lp.target.elts[1])
                    g = canon_guards(si, c, within=lp)
                    ok = U(d) == dvn and g == canon_want((f"{iv} not in {setname}", True))
                    # loop not nested in the guard on alive tracks
                    outer_guards = [(U(t_), p) for t_, p in si.guards(lp)]
                    ok = ok and not outer_guards
            ctx.decide(ok, "PATHCOUNT", site + ":unmatched", (fi, c),
                       "every droplet of the frame whose index is not in the matched set starts a new track (also when no track is alive)",
                       f"`{U(c)[:70]}`: the final loop must visit every droplet of the frame (enumerate({em_p})) and start a track exactly for the indices not in the matched set, unconditionally")
        else:
            ctx.violate("PATHCOUNT", site + ":unmatched", fi, f"expected one new-track store for unmatched droplets, found {len(new)}")
    if "TIME" in rules:
        for c, kind, d, t in stores:
            ctx.decide(t is not None and U(t) == time_p, "TIME", f"{site}:store[{kind}]", (fi, c), f"stamped with `{time_p}`",
                       f"`{U(c)[:70]}` is not stamped with the frame time `{time_p}`")
    # ---- CUTOFF
    if "CUTOFF" in rules:
        cut = None
        for s in fv.statements():
            if isinstance(s, ast.Assign) and isinstance(s.targets[0], ast.Subscript) and U(s.targets[0].value) in Ds and U(s.value) in ("np.inf", "math.inf") \
                    and isinstance(fv.expand(s.targets[0].slice, s, stop=tuple(Ds), allow_mutated=True), ast.Compare):
                cut = s
        ok = False
        if cut is not None:
            cp = compare_parts(fv.expand(cut.targets[0].slice, cut, stop=tuple(Ds), allow_mutated=True))
            ok = cp is not None and U(cp[0]) in Ds and isinstance(cp[1], ast.Gt) and U(cp[2]) == "max_dist" and U(cut.value) in ("np.inf", "math.inf")
            wl = [s for s in fv.statements() if isinstance(s, ast.While)]
            ok = ok and bool(wl) and fv.dominates(cut, wl[0]) and fv.dominates(st, cut)
        ctx.decide(ok, "CUTOFF", site, (fi, cut) if cut is not None else fi,
                   "distances strictly larger than max_dist are set to ∞ before any link is made",
                   "the cut-off is not applied as `D[D > max_dist] = inf` before the matching loop: droplets farther apart than the cut-off can be linked (or pairs exactly at the cut-off are refused)")
        ov = view(m, outer)
        md = [s for s in ov.statements() if isinstance(s, ast.Assign) and U(s.targets[0]) == "max_dist"]
        okd = len(md) == 1 and U(md[0].value) in ("kwargs.pop('max_dist', np.inf)", "kwargs.get('max_dist', np.inf)")
        ctx.decide(okd, "CUTOFF", site + ":default", (outer, md[0]) if md else outer, "max_dist defaults to ∞ (no cut-off)",
                   f"max_dist is `{U(md[0].value) if md else '?'}`; the documented default is no cut-off (np.inf)")


def check_main_loop(ctx, rules=("FLOW", "TIME")):
    m = ctx.model
    outer, ms = matchers(ctx)
    ov = view(m, outer)
    si = stmt_index(ov)
    site = OUTER + ":frames"
    tc = outer.params[1] if len(outer.params) > 1 else "time_course"
    loops = [s for s in ov.statements() if isinstance(s, ast.For) and f"{tc}.items()" in U(ov.expand(s.iter, s))]
    if len(loops) != 1:
        ctx.undecided("FLOW", site, outer, "frame loop over time_course.items() not found")
        return
    lp = loops[0]
    if not (isinstance(lp.target, ast.Tuple) and len(lp.target.elts) == 2):
        ctx.undecided("FLOW", site, (outer, lp), "frame loop target is not (time, emulsion)")
        return
    tv, ev = U(lp.target.elts[0]), U(lp.target.elts[1])
    # iterable: items() possibly wrapped by display_progress
    it = ov.expand(lp.iter, lp)
    while isinstance(it, ast.Call) and (dotted(it.func) or "").endswith("display_progress") and it.args:
        it = it.args[0]
    ok_it = U(it) == f"{tc}.items()"
    calls = [c for c in ov.calls() if isinstance(c.func, ast.Name) and c.func.id == "match_tracks" and any(x is c for x in ast.walk(lp))]
    # the "time of the previous frame" variable: assigned from the frame's time inside the loop, read by the alive filter
    tl_name = "t_last"
    cand_tl = [s for s in ast.walk(lp) if isinstance(s, ast.Assign) and isinstance(s.targets[0], ast.Name) and U(s.value) == tv]
    if len({U(s.targets[0]) for s in cand_tl}) == 1:
        tl_name = U(cand_tl[0].targets[0])
    tl = [s for s in ast.walk(lp) if isinstance(s, ast.Assign) and U(s.targets[0]) == tl_name]
    alive = [s for s in ast.walk(lp) if isinstance(s, ast.Assign) and U(s.targets[0]) == "tracks_alive"]
    paths = paths_through_body(ov, lp)
    head = ov.node_of(lp)

    def on_all_paths(stmt):
        n = ov.node_of(stmt)
        return all(any(x is n for x, _ in p) for p in paths if p[-1][0] is head)

    def skipped_only_when_empty(stmt):
        """paths that bypass ``stmt`` take a branch that establishes an empty frame"""
        from .empty import nonempty_guard

        n = ov.node_of(stmt)
        for p in paths:
            if p[-1][0] is not head or any(x is n for x, _ in p):
                continue
            ok = False
            for k, (node, _) in enumerate(p[:-1]):
                if node.kind == "test" and node.stmt is not None:
                    taken = p[k + 1][1]
                    if taken in ("T", "F") and nonempty_guard(node.stmt, ev, taken == "F"):
                        ok = True
            if not ok:
                return False
        return True

    if "FLOW" in rules:
        # the list of tracks only grows: nothing is removed from it (single-frame tracks are tracks, too)
        rem = [c_ for c_ in ov.calls() if isinstance(c_.func, ast.Attribute) and isinstance(c_.func.value, ast.Name) and c_.func.value.id == "tracks"
               and c_.func.attr in ("remove_short_tracks", "pop", "remove", "clear", "__delitem__")]
        rem += [s_ for s_ in ov.statements() if isinstance(s_, ast.Delete) and any("tracks" in U(t_) for t_ in s_.targets)]
        ctx.decide(not rem, "FLOW", site + ":keeps-all", (outer, rem[0]) if rem else outer, "no track is removed from the result",
                   f"`{U(rem[0])[:60] if rem else ''}` removes tracks from the result: droplets that are seen in a single frame only (duration 0) are then in no track at all")
        ok_call = len(calls) == 1 and skipped_only_when_empty(si.statement(calls[0]))
        ctx.decide(ok_it and ok_call, "FLOW", site + ":every-frame", (outer, lp),
                   "every frame of time_course.items() is handed to the matcher, in order",
                   "not every frame of the time course reaches the matcher (frames are skipped or the iteration is not over time_course.items())")
        ok_tl = len(tl) == 1 and U(tl[0].value) == tv and on_all_paths(tl[0])
        ctx.decide(ok_tl, "FLOW", site + ":t_last", (outer, tl[0]) if tl else (outer, lp),
                   "the previous-frame time is updated on every path through the frame loop",
                   "`t_last` is not set to the frame's time on every path through the frame loop (e.g. skipped for frames without droplets): tracks that ended earlier stay 'alive' across the gap and are continued, so tracks are no longer gap-free runs of consecutive frames")
        init = [s for s in ov.statements() if isinstance(s, ast.Assign) and U(s.targets[0]) == tl_name and not any(x is s for x in ast.walk(lp))]
        ok_init = len(init) == 1 and isinstance(init[0].value, ast.Constant) and init[0].value.value is None
        ok_alive = False
        if len(calls) == 1:
            from ..astutil import filtered_collection

            a_al = arg_or_kw(calls[0], 1, ms["overlap"].params[1])
            if a_al is not None and isinstance(a_al, ast.Name):
                fc = filtered_collection(ov, a_al.id, calls[0])
                if fc is not None:
                    src, cond, dstmt = fc
                    ok_alive = src == "tracks" and cond in (f"_.end == {tl_name}", f"{tl_name} == _.end") and any(x is dstmt for x in ast.walk(lp)) \
                        and (not tl or ov.dominates(calls[0], tl[0]))
                    alive = [dstmt]
        ctx.decide(ok_alive and ok_init, "FLOW", site + ":alive", (outer, alive[0]) if alive else (outer, lp),
                   "alive tracks = tracks ending exactly at the previous frame's time, computed before matching; t_last updated after",
                   "the alive set is not [track for track in tracks if track.end == t_last] computed before the matcher runs and before t_last is updated")
    if "TIME" in rules and len(calls) == 1:
        c = calls[0]
        fi = ms["overlap"]
        a_em = arg_or_kw(c, 0, fi.params[0])
        a_al = arg_or_kw(c, 1, fi.params[1])
        a_t = arg_or_kw(c, 2, fi.params[2])
        ok = a_em is not None and U(a_em) == ev and a_al is not None and U(a_al) == "tracks_alive" and a_t is not None and U(a_t) == tv
        same_sig = ms["overlap"].params == ms["distance"].params
        ctx.decide(ok and same_sig, "TIME", site + ":call", (outer, c), f"matcher receives (frame emulsion, alive tracks, time={tv}) from time_course.items()",
                   f"`{U(c)}` does not pass the frame's emulsion, the alive tracks and the frame's own time")
    # items() yields (time, emulsion)
    ci = m.cls("EmulsionTimeCourse")
    items = m.method(ci, "items")
    if items is not None and "TIME" in rules:
        rets = [s for s in ast.walk(items.node) if isinstance(s, ast.Return) and s.value is not None]
        iv_ = view(m, items)
        ok = len(rets) == 1 and U(iv_.expand(rets[0].value, rets[0])) == "zip(self.times, self.emulsions)"
        ctx.decide(ok, "TIME", f"{items.qualname}", (items, rets[0]) if rets else items, "items() pairs times[i] with emulsions[i]",
                   "EmulsionTimeCourse.items() does not yield zip(self.times, self.emulsions)")


def check_track_append(ctx, rules=("OWN", "NONETEST", "PAIR")):
    from . import nonetest

    m = ctx.model
    ci = m.cls("DropletTrack")
    fi = m.method(ci, "append")
    fv = view(m, fi)
    site = fi.qualname
    dp, tp = fi.params[1], fi.params[2]
    st = [c for c in fv.calls() if isinstance(c.func, ast.Attribute) and c.func.attr == "append" and U(c.func.value) == "self.droplets"]
    if "OWN" in rules:
        ok = len(st) == 1 and len(st[0].args) == 1 and U(st[0].args[0]) == f"{dp}.copy()"
        ctx.decide(ok, "OWN", site, (fi, st[0]) if st else fi, "the track stores an independent copy of the droplet",
                   f"`{U(st[0]) if st else 'no store'}`: the droplet is not stored as `{dp}.copy()`, so the track shares the caller's object (later changes leak in, and the time course's droplets can be altered through the track)")
    if "NONETEST" in rules:
        nonetest.check(ctx, fi, tp, "the time stamp")
    if "PAIR" in rules:
        tt = [c for c in fv.calls() if isinstance(c.func, ast.Attribute) and c.func.attr == "append" and U(c.func.value) == "self.times"]
        from ..astutil import count_on_normal_paths

        ok = len(st) == 1 and len(tt) == 1 and fv.post_dominates(tt[0], st[0]) and count_on_normal_paths(fv, [st[0]]) == {1} and count_on_normal_paths(fv, [tt[0]]) == {1}
        ctx.decide(ok, "PAIR", site, (fi, tt[0]) if tt else fi, "one droplet and one time are appended together on every path that does not raise",
                   "droplets and times are not appended pairwise on every path: some call returns without storing the given droplet as a new member (e.g. it replaces the last "
                   "member when the time repeats), so a droplet handed to the track is lost")
        if tt:
            from .collections import _check_default_time

            _check_default_time(ctx, fi, fv, tt[0], tp)


def check_input_untouched(ctx):
    """nothing is written through time_course / its emulsions / their droplets"""
    m = ctx.model
    outer, ms = matchers(ctx)
    tc = outer.params[1]
    bad = []
    tainted = {tc, "emulsion", "droplet"}
    for g in [outer] + list(ms.values()):
        for s in ast.walk(g.node):
            tg = s.targets if isinstance(s, ast.Assign) else ([s.target] if isinstance(s, ast.AugAssign) else [])
            for t in tg:
                root = t
                while isinstance(root, (ast.Attribute, ast.Subscript)):
                    root = root.value
                if isinstance(t, (ast.Attribute, ast.Subscript)) and isinstance(root, ast.Name) and root.id in tainted:
                    bad.append((g, s))
            if isinstance(s, ast.Call) and isinstance(s.func, ast.Attribute) and s.func.attr in (MUTATORS | {"remove_small", "remove_overlapping", "merge", "get_linked_data"}):
                root = s.func.value
                while isinstance(root, (ast.Attribute, ast.Subscript)):
                    root = root.value
                if isinstance(root, ast.Name) and root.id in tainted:
                    bad.append((g, s))
    ctx.decide(not bad, "EFFECT", OUTER + f":{tc}", (bad[0][0], bad[0][1]) if bad else outer,
               "the time course, its emulsions and their droplets are only read",
               f"`{U(bad[0][1])[:70] if bad else ''}` modifies the time course that was passed in")
    # DropletTrack.__init__ stores through append (copies)
    ci = m.cls("DropletTrack")
    init = m.method(ci, "__init__")
    iv = view(m, init)
    calls = [c for c in iv.calls() if isinstance(c.func, ast.Attribute) and c.func.attr == "append" and U(c.func.value) == "self"]
    raw = [s for s in iv.statements() if isinstance(s, ast.Assign) and U(s.targets[0]) == "self.droplets" and not (isinstance(s.value, ast.List) and not s.value.elts)]
    ctx.decide(len(calls) == 1 and not raw, "OWN", init.qualname, (init, calls[0]) if calls else init,
               "a new track adds its droplets through append (copy on insert)",
               "DropletTrack.__init__ stores the given droplets without going through append: new tracks share the time course's droplet objects")


# -------------------------------------------------------------------------------------------------- round 11
def check_no_early_exit(ctx, rule="PATHCOUNT"):
    """every call of a matcher runs to its end: the step that opens new tracks for the droplets that were not linked comes last,
    so a `return` on the way (for instance "every distance is beyond the cut-off") loses every droplet of that frame.  A return
    is harmless only where the frame has no droplet at all."""
    m = ctx.model
    outer, ms = matchers(ctx)
    n = 0
    for kind, fi in sorted(ms.items()):
        fv = view(m, fi)
        si = stmt_index(fv)
        em_p = fi.params[0] if fi.params else "emulsion"
        bad = None
        from ..cfg import walk_no_nested

        for r in walk_no_nested(fi.node):
            if not isinstance(r, ast.Return) or r is fi.node:
                continue
            guards = [(U(t), p) for t, p in si.effective_guards(r)]
            empty_ok = any((t in (f"len({em_p}) == 0", f"not {em_p}", f"len({em_p}) < 1") and p) or (t in (f"len({em_p}) > 0", em_p, f"len({em_p}) != 0", f"len({em_p}) >= 1") and not p)
                           for t, p in guards)
            # a return after the last loop over the frame's droplets (e.g. in front of a log message) skips nothing
            em_loops = [lp for lp in walk_no_nested(fi.node) if isinstance(lp, ast.For) and em_p in names_in(lp.iter)]
            after_all = bool(em_loops) and all(fv.dominates(lp, r) and not any(x is r for x in ast.walk(lp)) for lp in em_loops)
            if not empty_ok and not after_all:
                bad = r
                break
        n += 1
        ctx.decide(bad is None, rule, f"{fi.qualname}[{kind}]:runs-to-end", (fi, bad) if bad is not None else fi,
                   "the matcher has no exit before the step that stores the droplets that were not linked",
                   f"the matcher returns early (guards: {[t for t, _ in si.effective_guards(bad)] and [U(t)[:50] for t, _ in si.effective_guards(bad)] if bad is not None else ''}) although the frame may hold droplets: "
                   "those that were not linked are never stored in a new track — every droplet of such a frame is lost")
    return n
