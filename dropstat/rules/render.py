"""Rules over the rendering code: the three ``_get_phase_field`` implementations,
``polar_coordinates``, ``get_phase_field`` and ``Emulsion.get_phasefield``.

Used by C03 (faithful picture), C09 (never aborts) and C01 (rendering by periodic
distance).  Every function takes the property context and records findings there.
"""

from __future__ import annotations

import ast
import re
from fractions import Fraction

from ..algebra import Converter, Expr, NotAlgebraic
from ..astutil import U, view, arg_or_kw, kwarg, names_in, stmt_index, compare_parts
from ..cfg import walk_no_nested
from ..model import dotted, AnchorMissing

DROP = "droplets.droplets"
SPH = "droplets.tools.spherical"
RENDERERS = ["SphericalDroplet", "DiffuseDroplet", "PerturbedDropletBase"]


def _conv(ctx, fv, env=None, hook=None):
    m = ctx.model
    return Converter(resolve_dotted=lambda s: m.resolve(fv.mod, s) or s, env=env or {}, call_hook=hook)


# ------------------------------------------------------------------ renderers
class Renderer:
    def __init__(self, cname, fi):
        self.cname, self.fi = cname, fi
        self.dist_name = None
        self.angles_name = None
        self.polar_call = None
        self.sharp = None  # (stmt, Compare)
        self.smooth = None  # (stmt, expr)
        self.radius_expr = None


def renderer_info(ctx, cname) -> Renderer:
    m = ctx.model
    ci = m.cls(cname)
    lst = ci.methods.get("_get_phase_field")
    if not lst:
        raise AnchorMissing(f"{cname}._get_phase_field not found")
    fi = lst[0]
    r = Renderer(cname, fi)
    fv = view(m, fi)
    for c in fv.calls():
        if (fv.callee(c) or "").endswith("polar_coordinates"):
            r.polar_call = c
    return r


def check_renderer(ctx, cname, rules=("DIMGUARD", "DIST", "SHARP", "SMOOTH", "WIDTH", "CAST")):
    """One ``_get_phase_field``. Returns dict with the normalised smooth expression."""
    m = ctx.model
    r = renderer_info(ctx, cname)
    fi = r.fi
    fv = view(m, fi)
    si = stmt_index(fv)
    site = fi.qualname
    grid_p = fi.params[1] if len(fi.params) > 1 else "grid"
    dtype_p = fi.params[2] if len(fi.params) > 2 else "dtype"
    out = {"fi": fi}
    # ---- DIMGUARD: dimension mismatch raises ValueError before anything is computed
    if "DIMGUARD" in rules:
        ok, where = False, fi
        for s in fv.statements():
            if isinstance(s, ast.If):
                cp = compare_parts(s.test)
                if cp and isinstance(cp[1], ast.NotEq) and {U(cp[0]), U(cp[2])} == {"self.dim", f"{grid_p}.dim"}:
                    raises = [x for x in s.body if isinstance(x, ast.Raise)]
                    if raises and raises[0].exc is not None:
                        exc = raises[0].exc
                        name = dotted(exc.func) if isinstance(exc, ast.Call) else dotted(exc)
                        where = s
                        ok = name == "ValueError" and (r.polar_call is None or fv.dominates(s, r.polar_call))
        ctx.decide(ok, "DIMGUARD", site, (fi, where), "droplet/grid dimension mismatch raises ValueError before rendering",
                   "the documented ValueError for a droplet/grid dimension mismatch is not raised (before the distances are computed)")
    # ---- DIST: distances from polar_coordinates(grid, origin=self.position)
    c = r.polar_call
    if c is None:
        ctx.violate("DIST", site, fi, "cell distances are not obtained from spherical.polar_coordinates (the periodic-aware primitive)")
        return out
    g = arg_or_kw(c, 0, "grid")
    o = kwarg(c, "origin")
    ra = kwarg(c, "ret_angle")
    perturbed = cname == "PerturbedDropletBase"
    ok = g is not None and U(g) == grid_p and o is not None and U(o) == "self.position"
    ok_ra = (isinstance(ra, ast.Constant) and ra.value is True) if perturbed else (ra is None or (isinstance(ra, ast.Constant) and ra.value is False))
    if "DIST" in rules:
        ctx.decide(ok and ok_ra, "DIST", site, (fi, c),
                   f"distance of every cell from self.position on `{grid_p}` via polar_coordinates",
                   f"polar_coordinates is called as `{U(c)[:90]}`; expected (grid, origin=self.position, ret_angle={'True' if perturbed else 'False'})")
    # ---- path-sensitive normal form of the returned image: every path to a return, with temporaries substituted.
    # The rules below compare this normal form, so guard clauses, temporaries and renamed locals do not matter.
    from ..astutil import value_cases, truth_of, canon_tests, mini_eval

    P = U(c)
    locals_ = {n.id for n in ast.walk(fi.node) if isinstance(n, ast.Name) and isinstance(n.ctx, ast.Store)}
    paths = []  # (decisions, kind, expr AST in tokens DD/RR, width text or None, cast ok, stmt)
    for rn in fv.return_nodes():
        if rn.stmt.value is None:
            continue
        for dec, val in value_cases(fv, rn.stmt, rn.stmt.value):
            # prune infeasible paths (a decision on a constant that contradicts its outcome)
            feasible = True
            for ttxt, outc in dec.items():
                try:
                    if bool(mini_eval(ast.parse(ttxt, mode="eval").body, {})) != outc:
                        feasible = False
                except (ValueError, SyntaxError):
                    pass
            if not feasible:
                continue
            txt = U(val)
            angles_ok = True
            if perturbed:
                for form in (f"self.interface_distance(*{P}[1:])", f"self.interface_distance(*list({P}[1:]))", f"self.interface_distance(*tuple({P}[1:]))"):
                    txt = txt.replace(form, "RR")
                if "self.interface_distance(" in txt:
                    angles_ok = False
                txt = txt.replace(f"{P}[0]", "DD")
            else:
                txt = txt.replace(P, "DD").replace("self.radius", "RR")
            try:
                node = ast.parse(txt, mode="eval").body
            except SyntaxError:
                node = val
            cast_ok = isinstance(node, ast.Call) and isinstance(node.func, ast.Attribute) and node.func.attr == "astype" and len(node.args) == 1 and U(node.args[0]) == dtype_p
            inner = node.func.value if cast_ok else node
            kind = "sharp" if isinstance(inner, ast.Compare) else ("smooth" if "tanh" in U(inner) else "other")
            paths.append((dec, kind, inner, angles_ok, cast_ok, rn.stmt))
    if not paths:
        ctx.undecided("DIST", site + ":paths", fi, "no path to a returned image could be evaluated")
        return out
    out["dist"], out["R"] = "DD", "RR"
    if perturbed and "DIST" in rules:
        bad = [p_ for p_ in paths if not p_[3]]
        ctx.decide(not bad, "DIST", site + ":angles", (fi, bad[0][5]) if bad else (fi, c),
                   "interface distance evaluated at the angles of every cell",
                   "interface_distance is not called with exactly the angles returned by polar_coordinates (all components after the distance, in order)")
    sharp = [p_ for p_ in paths if p_[1] == "sharp"]
    smooth = [p_ for p_ in paths if p_[1] == "smooth"]
    other = [p_ for p_ in paths if p_[1] == "other"]
    if "SHARP" in rules:
        if not sharp:
            ctx.violate("SHARP", site, fi, "no indicator `dist < R` for the sharp/boolean image")
        else:
            bad = [p_ for p_ in sharp if canon_tests(p_[2], True) != [("DD < RR", True)]]
            ctx.decide(not bad and not other, "SHARP", site, (fi, (bad or other or sharp)[0][5]), "indicator is the strict test dist < R on every path",
                       f"sharp image is `{U((bad or other)[0][2])[:80] if (bad or other) else ''}`; a cell is inside exactly when its (periodic) distance is strictly smaller than the radius/interface distance")
    widths = {}
    if smooth:
        dz, Rz = Expr.atom("DIST"), Expr.atom("R")

        def hook(cv, call, name):
            if (name or "").endswith("tanh") and len(call.args) == 1:
                return Expr.atom("tanh[" + cv.conv(call.args[0]).show() + "]")
            return None

        half = Expr.const(Fraction(1, 2))
        ok_all, first_e, why = True, None, ""
        for dec, kind, inner, _, _, st in smooth:
            cv = _conv(ctx, fv, env={"DD": dz, "RR": Rz}, hook=hook)
            try:
                e = cv.conv(inner)
                tan = [a_ for a_ in e.atoms() if a_.startswith("tanh[")]
                okp = len(tan) == 1 and e == half + half * Expr.atom(tan[0])
                tcall = [n for n in ast.walk(inner) if isinstance(n, ast.Call) and U(n.func).split(".")[-1] == "tanh"]
                wat = None
                if okp and tcall:
                    a_ = cv.conv(tcall[0].args[0])
                    ws = [x for x in a_.atoms() if x not in ("DIST", "R")]
                    if len(ws) == 1:
                        wat = ws[0]
                        okp = a_ == (Rz - dz) * Expr.atom(wat).inverse()
                        widths[id(dec)] = (dec, wat, st)
                        if okp:
                            first_e = first_e or (half + half * Expr.atom("tanh[(R - DIST)/W]"))
                        else:
                            first_e = e
                    else:
                        okp = False
                if not okp:
                    ok_all, why = False, f"`{U(inner)[:80]}` (normal form {e.show()[:100]})"
            except NotAlgebraic as exc:
                ok_all, why = None, str(exc)
        if first_e is not None:
            out["smooth"] = first_e
            out["width_atom"] = "W"
        if "SMOOTH" in rules:
            if ok_all is None:
                ctx.undecided("SMOOTH", site, (fi, smooth[0][5]), why)
            else:
                ctx.decide(bool(ok_all), "SMOOTH", site, (fi, smooth[0][5]),
                           "profile ½ + ½·tanh((R − dist)/w): in (0,1), non-increasing in dist, above ½ exactly when dist < R",
                           f"smooth profile {why} is not ½ + ½·tanh((R − dist)/w)")
    elif cname != "SphericalDroplet" and "SMOOTH" in rules:
        ctx.violate("SMOOTH", site, fi, "no tanh profile for the diffuse image")
    # ---- WIDTH: default width and the sharp-branch condition, as truth tables over (width unset, width == 0, boolean dtype)
    if cname != "SphericalDroplet" and "WIDTH" in rules:
        vals = set()
        for dec, wat, st in widths.values():
            vals.add((truth_of(dec, "self.interface_width is None"), wat))
        okd = vals == {(True, f"{grid_p}.typical_discretization"), (False, "self.interface_width")}
        ctx.decide(okd, "WIDTH", site + ":default", (fi, smooth[0][5]) if smooth else fi,
                   "unset width (`is None`) defaults to grid.typical_discretization, otherwise the droplet's own width",
                   f"interface width selection is {sorted(vals, key=str)}; expected self.interface_width, or grid.typical_discretization exactly when it `is None` (a width of 0 is a valid sharp interface)")
        # decisions that vary between the paths and concern only parameters/attributes
        WTXT = ("self.interface_width", f"{grid_p}.typical_discretization")
        table_ok, amb = True, None
        varying = {}
        for dec, *_ in paths:
            for k, v in dec.items():
                varying.setdefault(k, set()).add(v)
        for N in (True, False):
            w_here = f"{grid_p}.typical_discretization" if N else "self.interface_width"
            for Z in (True, False):
                # B: a boolean image is requested — as the builtin `bool` (what refine_droplet passes), as np.bool_ or as np.dtype(bool);
                # each spelling is a case of its own, because hand-written dtype tests tell them apart
                for B, spelling in ((True, "builtin"), (True, "np.bool_"), (True, "np.dtype"), (False, "float")):
                    kinds = set()
                    for dec, kind, *_ in paths:
                        consistent = True
                        for ttxt, outc in dec.items():
                            if len(varying.get(ttxt, ())) < 2:
                                continue  # same outcome on every path: independent of the selection
                            try:
                                tn = ast.parse(ttxt, mode="eval").body
                            except SyntaxError:
                                continue
                            if names_in(tn) & (locals_ - {"self", grid_p, dtype_p}):
                                continue  # un-substituted twin of a decision
                            # a width chosen by a conditional expression inside the test is resolved for this case first
                            class _Res(ast.NodeTransformer):
                                def visit_IfExp(self, n_):
                                    self.generic_visit(n_)
                                    tt_ = U(n_.test)
                                    if tt_ == "self.interface_width is None":
                                        return n_.body if N else n_.orelse
                                    if tt_ == "self.interface_width is not None":
                                        return n_.orelse if N else n_.body
                                    return n_

                            ttxt_r = U(_Res().visit(tn))
                            t2 = ttxt_r.replace("self.interface_width is None", "NN").replace("self.interface_width is not None", "(not NN)")
                            for w_ in WTXT:
                                t2 = t2.replace(f"{w_} == 0", "ZZ" if w_ == w_here else "ZOTHER").replace(f"{w_} != 0", "(not ZZ)" if w_ == w_here else "ZOTHER")
                            t2 = t2.replace(f"np.issubdtype({dtype_p}, bool)", "BB").replace(f"numpy.issubdtype({dtype_p}, bool)", "BB")
                            # numpy semantics of the other ways to ask "is this the boolean type" (per spelling of the request)
                            DT = {"builtin": {"eq_npbool": False, "eq_bool": True, "is_bool": True},
                                  "np.bool_": {"eq_npbool": True, "eq_bool": False, "is_bool": False},
                                  "np.dtype": {"eq_npbool": True, "eq_bool": True, "is_bool": False},
                                  "float": {"eq_npbool": False, "eq_bool": False, "is_bool": False}}[spelling]
                            for pat_, key_ in ((f"{dtype_p} == np.bool_", "eq_npbool"), (f"np.bool_ == {dtype_p}", "eq_npbool"), (f"{dtype_p} == bool", "eq_bool"), (f"bool == {dtype_p}", "eq_bool"),
                                               (f"{dtype_p} is bool", "is_bool"), (f"{dtype_p} is np.bool_", "eq_npbool" if spelling == "np.bool_" else "is_never")):
                                t2 = t2.replace(pat_, str(DT.get(key_, False)))
                            for pat_ in (f"np.dtype({dtype_p}) == bool", f"np.dtype({dtype_p}) == np.bool_", f"np.dtype({dtype_p}).kind == 'b'"):
                                t2 = t2.replace(pat_, "BB")
                            if "ZOTHER" in t2:
                                consistent = False  # path taken with the other width source
                                break
                            try:
                                if bool(mini_eval(ast.parse(t2, mode="eval").body, {"NN": N, "ZZ": Z, "BB": B})) != outc:
                                    consistent = False
                                    break
                            except (ValueError, SyntaxError):
                                amb = ttxt
                        if consistent:
                            kinds.add(kind)
                    want_kind = "sharp" if (Z or B) else "smooth"
                    if kinds != {want_kind}:
                        table_ok = False
                        bad_case = (N, Z, B, sorted(kinds))
        if amb is not None and not table_ok:
            ctx.undecided("WIDTH", site + ":sharp-branch", fi, f"selection of the sharp image depends on `{amb}`, which is not evaluable")
        else:
            ctx.decide(table_ok, "WIDTH", site + ":sharp-branch", (fi, sharp[0][5]) if sharp else fi,
                       "indicator used exactly for width 0 or boolean images (truth table over width unset / width 0 / boolean dtype)",
                       "the sharp image is not selected exactly when the width is 0 or a boolean image is requested" + (f": (unset={bad_case[0]}, zero={bad_case[1]}, bool={bad_case[2]}) gives {bad_case[3]} (a boolean image may be requested as the builtin bool — refine_droplet does — as np.bool_ or as a dtype object)" if not table_ok else ""))
    # ---- CAST
    if "CAST" in rules:
        bad = [p_ for p_ in paths if not p_[4]]
        ctx.decide(not bad, "CAST", site, (fi, bad[0][5]) if bad else fi, "image returned in the requested dtype",
                   f"returned image is not cast to `{dtype_p}` (boolean masks are requested by refine_droplet)")
    return out


def check_renderer_siblings(ctx, infos):
    d, p = infos.get("DiffuseDroplet", {}), infos.get("PerturbedDropletBase", {})
    if "smooth" in d and "smooth" in p:
        a, b = d["smooth"], p["smooth"]
        ctx.decide(a == b, "SIBLING", f"{DROP}.DiffuseDroplet._get_phase_field~PerturbedDropletBase._get_phase_field", p["fi"],
                   "perturbed and diffuse renderers use one profile (interface ↦ radius)",
                   f"the perturbed renderer's profile {b.show()} differs from the diffuse one {a.show()} under interface ↦ radius")


# ------------------------------------------------------------------ polar_coordinates
def polar_info(ctx):
    m = ctx.model
    fi = m.func(f"{SPH}.polar_coordinates", index=None)
    # the last definition is the implementation (the first two are typing overloads)
    fi = m.funcs(f"{SPH}.polar_coordinates")[-1]
    return fi


class _Ret:
    """a returned tuple on one path: behaves like the (stmt, length) pair older callers unpack, plus the element expressions"""

    def __init__(self, stmt, elts):
        self.stmt, self.elts = stmt, elts

    def __iter__(self):
        return iter((self.stmt, len(self.elts)))

    def __getitem__(self, i):
        return (self.stmt, len(self.elts))[i]


def polar_returns(ctx):
    """{dim: returned tuple} for the ret_angle branches — decided as a truth table over the grid dimension on every
    path to every return (whatever the dispatch is spelled like: elif chain, successive early returns, negated tests, a
    tuple of angles assigned per branch and returned once as ``(dist, *angles)``)"""
    from ..astutil import value_cases, mini_eval

    fi = polar_info(ctx)
    fv = view(ctx.model, fi)
    gp = fi.params[0]
    # local aliases of the grid's dimension
    dim_alias = {f"{gp}.dim"}
    for s_ in fv.statements():
        if isinstance(s_, ast.Assign) and len(s_.targets) == 1 and isinstance(s_.targets[0], ast.Name) and U(s_.value) == f"{gp}.dim":
            dim_alias.add(s_.targets[0].id)
    # the difference vector and its norm keep their names (the angle rules are phrased in terms of them)
    keep = [gp]
    for s_ in fv.statements():
        if isinstance(s_, (ast.Assign, ast.AnnAssign)) and s_.value is not None and isinstance(s_.value, ast.Call):
            tg_ = s_.targets[0] if isinstance(s_, ast.Assign) else s_.target
            if isinstance(tg_, ast.Name) and ((isinstance(s_.value.func, ast.Attribute) and s_.value.func.attr == "difference_vector") or (fv.callee(s_.value) or "").endswith("linalg.norm")):
                keep.append(tg_.id)
    out = {}
    for n in fv.return_nodes():
        s = n.stmt
        if s.value is None or not isinstance(s.value, ast.Tuple):
            continue
        for dec, val in value_cases(fv, s, s.value, stop=tuple(keep)):
            if isinstance(val, str):
                try:
                    val = ast.parse(val, mode="eval").body
                except SyntaxError:
                    continue
            if not isinstance(val, ast.Tuple):
                continue
            elts = []
            flat_ok = True
            for e in val.elts:
                if isinstance(e, ast.Starred):
                    if isinstance(e.value, (ast.Tuple, ast.List)):
                        elts.extend(e.value.elts)
                    else:
                        flat_ok = False
                else:
                    elts.append(e)
            if not flat_ok:
                continue
            dims = []
            for d in (1, 2, 3):
                ok = True
                for ttxt, outc in dec.items():
                    t2 = ttxt
                    for al in sorted(dim_alias, key=len, reverse=True):
                        t2 = re.sub(rf"(?<![\w.]){re.escape(al)}(?![\w])", "DIMV", t2)
                    if "DIMV" not in t2 and "ret_angle" not in t2:
                        continue
                    try:
                        if bool(mini_eval(ast.parse(t2, mode="eval").body, {"DIMV": d, "ret_angle": True})) != outc:
                            ok = False
                    except (ValueError, SyntaxError):
                        pass
                if ok:
                    dims.append(d)
            if len(dims) == 1:
                out[dims[0]] = _Ret(s, elts)
    return fi, out


def _inline_components(fv, e, at, diff_name):
    """replace names that are plain views `diff[..., k]` of the difference vector by that subscript"""
    import copy

    views = {}
    for s_ in fv.statements():
        if isinstance(s_, ast.Assign) and len(s_.targets) == 1 and isinstance(s_.targets[0], ast.Name) and isinstance(s_.value, ast.Subscript) and diff_name and U(s_.value.value) == diff_name:
            views[s_.targets[0].id] = s_.value

    class R(ast.NodeTransformer):
        def visit_Name(self, n):
            if isinstance(n.ctx, ast.Load) and n.id in views:
                return copy.deepcopy(views[n.id])
            return n

    return R().visit(copy.deepcopy(e))


def check_polar(ctx, rules=("METRIC", "ANGLES", "DIV0")):
    m = ctx.model
    fi, rets = polar_returns(ctx)
    fv = view(m, fi)
    site = fi.qualname
    grid_p = fi.params[0]
    # ---- METRIC: diff = grid.difference_vector(transform(origin, cartesian->grid), grid.cell_coords); dist = norm(diff)
    dv = [c for c in fv.calls() if isinstance(c.func, ast.Attribute) and c.func.attr == "difference_vector"]
    diff_name = dist_name = None
    if "METRIC" in rules:
        if len(dv) != 1:
            ctx.violate("METRIC", site, fi, "the difference between origin and cell centres is not taken with grid.difference_vector (periodic-aware)")
        else:
            c = dv[0]
            a0 = fv.expand(c.args[0], c) if c.args else None
            a1 = c.args[1] if len(c.args) > 1 else None
            ok0 = isinstance(a0, ast.Call) and isinstance(a0.func, ast.Attribute) and a0.func.attr == "transform" and U(a0.func.value) == grid_p
            if ok0:
                src = arg_or_kw(a0, 1, "source")
                tgt = arg_or_kw(a0, 2, "target")
                ok0 = isinstance(src, ast.Constant) and src.value == "cartesian" and isinstance(tgt, ast.Constant) and tgt.value == "grid" and "origin" in names_in(a0.args[0] if a0.args else a0)
            ok1 = a1 is not None and U(a1) == f"{grid_p}.cell_coords" and U(c.func.value) == grid_p
            ctx.decide(bool(ok0 and ok1), "METRIC", site, (fi, c),
                       "vector from the origin (converted cartesian→grid) to every cell centre, with the grid's periodic metric",
                       f"difference vector is `{U(c)[:90]}`; expected grid.difference_vector(grid.transform(origin, 'cartesian', 'grid'), grid.cell_coords) — from the origin to the cells")
    si = stmt_index(fv)
    if dv:
        st = si.statement(dv[0])
        if isinstance(st, ast.Assign) and isinstance(st.targets[0], ast.Name):
            diff_name = st.targets[0].id
    for s in fv.statements():
        if isinstance(s, (ast.Assign, ast.AnnAssign)) and s.value is not None and isinstance(s.value, ast.Call) and (fv.callee(s.value) or "").endswith("linalg.norm"):
            t = s.targets[0] if isinstance(s, ast.Assign) else s.target
            if isinstance(t, ast.Name) and s.value.args and U(s.value.args[0]) == diff_name:
                dist_name = t.id
                if "METRIC" in rules and dv:
                    # on every path the vector whose norm is taken is the periodic difference vector (no shortcut for special origins)
                    dnode = fv.node_of(si.statement(dv[0]))
                    other = [d for d in fv.defs_reaching(diff_name, s) if d is not dnode]
                    ctx.decide(not other, "METRIC", site + ":all-paths", (fi, other[0].stmt) if other and other[0].stmt is not None else (fi, s),
                               "the difference vector has a single definition: grid.difference_vector on every path",
                               f"on some path the vector to the cells is `{U(other[0].stmt)[:80] if other and other[0].stmt is not None else '?'}` instead of grid.difference_vector(...): "
                               "for those origins the periodic images are ignored, so a droplet at that position is not rendered across the boundary")
                ax = kwarg(s.value, "axis")
                if "METRIC" in rules:
                    ctx.decide(ax is not None and U(ax) == "-1", "METRIC", site + ":norm", (fi, s), "distance = Euclidean norm over the last axis",
                               f"norm taken as `{U(s.value)}`")
    if dist_name is None and "METRIC" in rules:
        ctx.violate("METRIC", site + ":norm", fi, "distance is not the norm of the periodic difference vector")
    if "METRIC" in rules and diff_name:
        # the vector the grid computed is used as it is: a hand-written wrap of a component re-implements the periodic metric; one
        # that takes its period from the number of cells (grid.shape) mixes cell counts with lengths and is wrong for every spacing ≠ 1
        writes = []
        for s_ in fv.statements():
            tg = s_.targets if isinstance(s_, ast.Assign) else ([s_.target] if isinstance(s_, ast.AugAssign) else [])
            for t_ in tg:
                r_ = t_
                while isinstance(r_, (ast.Subscript, ast.Attribute)):
                    r_ = r_.value
                if isinstance(t_, (ast.Subscript, ast.Attribute)) and isinstance(r_, ast.Name) and r_.id == diff_name:
                    writes.append(s_)
        counts = [w for w in writes if any(x in U(fv.expand(w.value, w, stop=(grid_p,))) for x in (f"{grid_p}.shape", f"{grid_p}.num_cells", f"len({grid_p}."))]
        if counts:
            ctx.violate("METRIC", site + ":unmodified", (fi, counts[0]), f"`{U(counts[0])[:90]}` shifts a component of the periodic difference vector by a period taken from the number of cells: "
                        "the vector is a length, so for a grid spacing other than 1 the wrapped distance is wrong (a second, spurious image of the droplet is rendered and located)")
        elif writes:
            ctx.undecided("METRIC", site + ":unmodified", (fi, writes[0]), f"the periodic difference vector is modified in place: `{U(writes[0])[:80]}`")
        else:
            ctx.hold("METRIC", site + ":unmodified", fi, "the periodic difference vector is used as the grid computed it")
    # ---- the angles are dispatched on the *space* dimension (symmetric grids have fewer axes than dimensions)
    if "ANGLES" in rules or "ARITY" in rules:
        disp = [s_ for s_ in fv.statements() if isinstance(s_, ast.If) and any(x in U(fv.expand(s_.test, s_, stop=(grid_p,))) for x in (f"{grid_p}.num_axes", f"len({grid_p}.shape)", f"{grid_p}.ndim", f"len({grid_p}.axes)"))]
        if disp:
            ctx.violate("ANGLES", site + ":dispatch", (fi, disp[0]), f"the angle convention is selected by `{U(disp[0].test)[:60]}` (number of grid axes), not by the space dimension grid.dim: on a "
                        "cylindrical grid (dim 3, two axes) the 2-d convention is used and every cell of a 3-d droplet gets the wrong polar angle")
    # ---- ANGLES: convention per dimension
    if "ANGLES" in rules and diff_name:
        def comp(k):
            return f"{diff_name}[..., {k}]"

        for dim, r_ in sorted(rets.items()):
            s, n = r_
            elts = [fv.expand(e, s, stop=(diff_name, dist_name or "")) for e in r_.elts]
            # named views of the components (dx = diff[..., 0]) are resolved
            elts = [_inline_components(fv, e, s, diff_name) for e in elts]
            tag = f"{site}:dim{dim}"
            first_ok = U(elts[0]) == dist_name
            if dim == 1:
                ok = n == 2 and U(elts[1]) in (f"np.sign({diff_name})[..., 0]", f"np.sign({diff_name}[..., 0])")
                desc = "sign of the difference"
            elif dim == 2:
                ok = n == 2 and U(elts[1]) == f"np.arctan2({comp(1)}, {comp(0)})"
                desc = "φ = arctan2(y, x)"
            elif dim == 3:
                th = U(elts[1])
                ok_th = th in (f"np.arctan2(np.hypot({comp(0)}, {comp(1)}), {comp(2)})", f"np.arccos({comp(2)} / {dist_name})")
                ok = n == 3 and ok_th and U(elts[2]) == f"np.arctan2({comp(1)}, {comp(0)})"
                desc = "θ from the z-axis, φ = arctan2(y, x)"
            else:
                continue
            ctx.decide(ok and first_ok, "ANGLES", tag, (fi, s), f"returns (dist, {desc}) — inverse of the unit-vector convention used by interface_position",
                       f"angles returned for dim {dim} are `{', '.join(U(e)[:60] for e in elts)}`; expected (dist, {desc})")
    # ---- DIV0: division by the distance (0 when a cell centre coincides with the origin)
    if "DIV0" in rules and dist_name:
        bad = []
        for s in fv.statements():
            for root in ([s.value] if isinstance(s, (ast.Assign, ast.Return, ast.AnnAssign)) and s.value is not None else []):
                for n in walk_no_nested(root):
                    if isinstance(n, ast.BinOp) and isinstance(n.op, (ast.Div, ast.FloorDiv, ast.Mod)) and dist_name in names_in(n.right):
                        # guarded forms
                        guarded = False
                        for parent, fld in si.ancestors(s):
                            if isinstance(parent, ast.With) and any("errstate" in U(i.context_expr) for i in parent.items):
                                guarded = True
                        enc = [c for c in ast.walk(root) if isinstance(c, ast.Call) and (dotted(c.func) or "").split(".")[-1] in ("where", "divide") and any(x is n for x in ast.walk(c))]
                        if enc:
                            guarded = True
                        if not guarded:
                            bad.append((s, n))
        if bad:
            s, n = bad[0]
            ctx.violate("DIV0", site, (fi, s),
                        f"`{U(n)}` divides by the distance, which is 0 for a cell centre that coincides with the origin: 0/0 = NaN angle → non-finite rendered cell for perturbed droplets")
        else:
            ctx.hold("DIV0", site, fi, "no unguarded division by the cell distance")
    return rets


def check_arity(ctx):
    """angles handed to interface_distance per grid dimension are accepted by every
    concrete perturbed class of that dimension"""
    m = ctx.model
    _, rets = polar_returns(ctx)
    base = m.cls("PerturbedDropletBase")
    n = 0
    for ci in m.subclasses(base):
        dimv = ci.attrs.get("dim")
        if not (isinstance(dimv, ast.Constant) and isinstance(dimv.value, int)):
            continue
        dim = dimv.value
        fi = m.method(ci, "interface_distance")
        site = f"{ci.qualname}.interface_distance"
        if fi is None or dim not in rets:
            ctx.undecided("ARITY", site, ci.node, "no interface_distance / no angle tuple for this dimension")
            continue
        n_ang = rets[dim][1] - 1
        a = fi.node.args
        pos = [x.arg for x in a.posonlyargs + a.args][1:]
        nreq = len(pos) - len(a.defaults)
        ok = (nreq <= n_ang <= len(pos)) or (a.vararg is not None and nreq <= n_ang)
        n += 1
        ctx.decide(ok, "ARITY", site, fi,
                   f"rendering on a {dim}d grid passes {n_ang} angle(s); accepted ({nreq}..{len(pos)})",
                   f"rendering on a {dim}d grid passes {n_ang} angle(s) (polar_coordinates returns {rets[dim][1]} values) but {ci.name}.interface_distance accepts {nreq}..{len(pos)}: TypeError when such a droplet is rendered or refined")
    return n


# ------------------------------------------------------------------ get_phase_field / get_phasefield
def check_scaling(ctx):
    m = ctx.model
    fi = m.func(f"{DROP}.SphericalDroplet.get_phase_field")
    fv = view(m, fi)
    site = fi.qualname
    rets = [n.stmt for n in fv.return_nodes()]
    if len(rets) != 1 or not isinstance(rets[0].value, ast.Call):
        ctx.undecided("AFFINE", site, fi, "return not recognised")
        return
    call = rets[0].value
    data = kwarg(call, "data") or (call.args[1] if len(call.args) > 1 else None)
    g = call.args[0] if call.args else kwarg(call, "grid")
    if data is None or g is None:
        # arguments collected in a dict and passed with **
        from ..astutil import dict_items

        for k_ in call.keywords:
            if k_.arg is None:
                items = dict_items(fv, k_.value, call)
                if items:
                    data = data if data is not None else items.get("data")
                    g = g if g is not None else items.get("grid")
    if data is None:
        ctx.violate("AFFINE", site, (fi, rets[0]), "returned field carries no data")
        return
    ex = fv.expand(data, rets[0], allow_mutated=True)

    def hook(cv, c, name):
        if isinstance(c.func, ast.Attribute) and c.func.attr == "_get_phase_field" and U(c.func.value) == "self":
            return Expr.atom("u" if [U(a) for a in c.args] == [fi.params[1]] and not c.keywords else "u?")
        return None

    try:
        e = _conv(ctx, fv, hook=hook).conv(ex)
        vmin, vmax, u = Expr.atom("vmin"), Expr.atom("vmax"), Expr.atom("u")
        ctx.decide(e == vmin + (vmax - vmin) * u, "AFFINE", site, (fi, rets[0]),
                   "field = vmin + (vmax − vmin)·u with u = self._get_phase_field(grid) ∈ [0,1]",
                   f"scaled field is {e.show()}, not vmin + (vmax − vmin)·u")
    except NotAlgebraic as exc:
        ctx.undecided("AFFINE", site, (fi, rets[0]), str(exc))
    if isinstance(data, ast.Name):
        dn = data.id
        bad = []
        for s_ in fv.statements():
            for c_ in ast.walk(s_) if not isinstance(s_, (ast.FunctionDef, ast.ClassDef)) else []:
                if isinstance(c_, ast.Call):
                    o = kwarg(c_, "out")
                    if o is not None and U(o) == dn:
                        bad.append((s_, c_))
                    if isinstance(c_.func, ast.Attribute) and U(c_.func.value) == dn and c_.func.attr in ("clip", "fill", "sort", "put", "itemset", "partition") and kwarg(c_, "out") is not None:
                        bad.append((s_, c_))
            if isinstance(s_, (ast.Assign, ast.AugAssign)):
                t_ = s_.targets[0] if isinstance(s_, ast.Assign) else s_.target
                if isinstance(t_, ast.Subscript) and U(t_.value) == dn:
                    bad.append((s_, t_))
        ctx.decide(not bad, "AFFINE", site + ":in-place", (fi, bad[0][0]) if bad else fi, "the scaled field is returned as computed",
                   f"`{U(bad[0][1])[:70] if bad else ''}` modifies the scaled field in place after the affine map (e.g. clipping to [vmin, vmax] collapses the field to a constant for an inverted pair vmin > vmax): the field is no longer vmin + (vmax − vmin)·u")
    ctx.decide(g is not None and U(g) == fi.params[1], "AFFINE", site + ":grid", (fi, rets[0]), "field lives on the grid it was rendered on",
               f"returned field uses grid `{U(g) if g is not None else None}`")


def check_sum_clip(ctx):
    m = ctx.model
    fi = m.func("droplets.emulsions.Emulsion.get_phasefield")
    fv = view(m, fi)
    si = stmt_index(fv)
    site = fi.qualname
    grid_p = fi.params[1]
    # accumulation: result = self[0].get_phase_field(grid, ...); for d in self[1:]: result += d.get_phase_field(grid)
    loops = [s for s in fv.statements() if isinstance(s, ast.For)]
    if len(loops) > 1:
        # several loops: the one that accumulates the members' fields is the sum; every other way of producing the
        # returned field for a non-empty emulsion bypasses it
        acc_loops = [l_ for l_ in loops if any(isinstance(a_, ast.AugAssign) and isinstance(a_.op, ast.Add) and "get_phase_field" in U(a_.value) for a_ in ast.walk(l_))]
        if len(acc_loops) == 1:
            from .empty import nonempty_guard

            lp0 = acc_loops[0]
            for rn in fv.return_nodes():
                r = rn.stmt
                if r.value is None or fv.dominates(lp0, r):
                    continue
                g_ = si.effective_guards(r)
                empty_case = any(nonempty_guard(t_, "self", not p_) for t_, p_ in g_)
                if not empty_case:
                    ctx.violate("SUMCLIP", site + ":sum", (fi, r), f"`{U(r)[:70]}` returns a field that is not the clipped sum of the members' get_phase_field images "
                                f"(taken under {[U(t_)[:50] for t_, _p in g_]}): on that path members are rendered differently (e.g. diffuse or perturbed members of a mixed emulsion as sharp masks)")
                    return
            loops = acc_loops
    if len(loops) != 1:
        ctx.undecided("SUMCLIP", site, fi, f"{len(loops)} loops")
        return
    lp = loops[0]
    ups = [s for s in ast.walk(lp) if isinstance(s, ast.AugAssign)]
    plain = [s for s in ast.walk(lp) if isinstance(s, ast.Assign)]
    ok_acc = len(ups) == 1 and isinstance(ups[0].op, ast.Add) and isinstance(ups[0].target, ast.Name) and not plain
    if not ok_acc:
        ctx.violate("SUMCLIP", site + ":sum", (fi, lp), "droplet fields are not accumulated with `+=` into one result")
        return
    acc = ups[0].target.id
    val = ups[0].value
    tvar = lp.target.id if isinstance(lp.target, ast.Name) else None
    ok_term = isinstance(val, ast.Call) and isinstance(val.func, ast.Attribute) and val.func.attr == "get_phase_field" and U(val.func.value) == tvar \
        and val.args and U(val.args[0]) == grid_p and not [k for k in val.keywords if k.arg in ("vmin", "vmax")]
    outside = [d for d in fv.defs_reaching(acc, fv.node_of(lp)) if d.stmt is not None and not in_stmt(lp, d.stmt)]
    init = None
    if len(outside) == 1:
        v0 = fv.value_of_def(outside[0], acc)
        if v0 is not None:
            v0 = fv.expand(v0, outside[0])
        init = (v0, outside[0]) if v0 is not None else None
    it = U(lp.iter)
    cover = None
    if init is not None:
        iv = init[0]
        if isinstance(iv, ast.Call) and isinstance(iv.func, ast.Attribute) and iv.func.attr == "get_phase_field" and U(iv.func.value) == "self[0]" \
                and iv.args and U(iv.args[0]) == grid_p and not [k for k in iv.keywords if k.arg in ("vmin", "vmax")]:
            cover = it == "self[1:]"
        elif isinstance(iv, ast.Call) and (fv.callee(iv) or "").endswith("ScalarField") and len(iv.args) == 1 and U(iv.args[0]) == grid_p:
            cover = it == "self"
    uncond = any(x is ups[0] for x in lp.body)
    if ok_term and cover and not uncond:
        si_ = stmt_index(fv)
        g = [U(t) for t, p in si_.guards(ups[0]) if any(x is t for x in ast.walk(lp))]
        ctx.violate("SUMCLIP", site + ":sum", (fi, ups[0]),
                    f"a member's field is added only under `{g[0] if g else '?'}`: members failing the test are silently not rendered (e.g. a droplet whose centre lies outside the box along a periodic axis still covers cells inside it)")
        cover = None
    if cover is not None:
        ctx.decide(bool(ok_term and cover), "SUMCLIP", site + ":sum", (fi, lp),
                   "every member is rendered once on the grid with the default levels and added",
                   f"sum does not cover every member exactly once (initial value `{U(init[0])[:60] if init else '?'}`, loop over `{it}`, term `{U(val)[:60]}`)")
    # clip: in place, bounds 0 and 1, after the loop, before the return
    clips = [c for c in fv.calls() if (fv.callee(c) or "").endswith("numpy.clip") or (isinstance(c.func, ast.Attribute) and c.func.attr == "clip")]
    good = []
    for c in clips:
        st = si.statement(c)
        if in_stmt(lp, st):
            continue
        args = list(c.args)
        recv = None
        if isinstance(c.func, ast.Attribute) and c.func.attr == "clip" and not (fv.callee(c) or "").endswith("numpy.clip"):
            recv = c.func.value
            args = [recv] + args
        lo = args[1] if len(args) > 1 else kwarg(c, "a_min") or kwarg(c, "min")
        hi = args[2] if len(args) > 2 else kwarg(c, "a_max") or kwarg(c, "max")
        outk = kwarg(c, "out")
        src = U(args[0]) if args else ""
        bounds_ok = lo is not None and hi is not None and U(lo) in ("0", "0.0") and U(hi) in ("1", "1.0")
        target_ok = src in (f"{acc}.data", acc)
        inplace = outk is not None and U(outk) == src
        assigned = isinstance(st, ast.Assign) and any(U(t) in (f"{acc}.data", f"{acc}.data[...]", f"{acc}.data[:]") for t in st.targets)
        good.append((c, st, bounds_ok, target_ok, inplace or assigned))
    if not good:
        ctx.violate("SUMCLIP", site + ":clip", fi, "the summed field is never clipped to [0, 1]")
        return
    c, st, b_ok, t_ok, stored = good[0]
    rets = [n.stmt for n in fv.return_nodes() if n.stmt.value is not None and U(n.stmt.value) == acc]
    after = bool(rets) and all(fv.dominates(st, r) for r in rets) and not fv.dominates(st, lp)
    ctx.decide(b_ok and t_ok and stored and after, "SUMCLIP", site + ":clip", (fi, st),
               "sum is clipped to [0, 1] in place after all members were added",
               f"`{U(c)[:80]}`: " + ("bounds are not (0, 1); " if not b_ok else "") + ("does not clip the accumulated field; " if not t_ok else "")
               + ("the clipped array is discarded (no out=/assignment back into the field); " if not stored else "") + ("not executed after the summation on the way to the return" if not after else ""))
    # empty emulsion: zero field
    empt = [n.stmt for n in fv.return_nodes() if n.stmt not in rets]
    ok_e = len(empt) == 1 and isinstance(empt[0].value, ast.Call) and (fv.callee(empt[0].value) or "").endswith("ScalarField") and [U(a) for a in empt[0].value.args] == [grid_p] and not empt[0].value.keywords
    ctx.decide(ok_e, "SUMCLIP", site + ":empty", (fi, empt[0]) if empt else fi, "empty emulsion gives the zero field on the grid",
               "an emulsion without droplets does not yield ScalarField(grid) (zeros)")


def in_stmt(outer, inner) -> bool:
    return inner is not None and any(x is inner for x in ast.walk(outer))


def _factors(n):
    """multiset of multiplicative factors of an expression (unparsed, sorted)"""
    out = []

    def rec(x):
        if isinstance(x, ast.BinOp) and isinstance(x.op, ast.Mult):
            rec(x.left)
            rec(x.right)
        else:
            out.append(U(x))

    rec(n)
    return sorted(out)


def check_real_harmonics(ctx):
    """spherical_harmonic_real: the three order branches follow the standard definition of real
    spherical harmonics and the m > 0 and m < 0 branches agree with each other"""
    from ..astutil import branch_table

    m = ctx.model
    fi = m.func(f"{SPH}.spherical_harmonic_real")
    site = fi.qualname
    p = fi.params
    if len(p) != 4:
        ctx.undecided("HARMONIC", site, fi, "signature changed")
        return
    l_, m_, th, ph = p
    fvh = view(m, fi)
    table, default = branch_table(fi.node.body)
    got = {}
    for test, body in table + [(None, default)]:
        rets = [x for x in body if isinstance(x, ast.Return)]
        if not rets:
            continue
        if test is None:
            key = "else"
        else:
            cp = compare_parts(test)
            key = f"{type(cp[1]).__name__}:{U(cp[2])}" if cp and U(cp[0]) == m_ else U(test)
        got[key] = (_factors(fvh.expand(rets[0].value, rets[0], stop=tuple(p)) if fvh.node_of(rets[0]) is not None else rets[0].value), rets[0])
    pos = got.get("Gt:0")
    zero = got.get("Eq:0")
    neg = got.get("Lt:0") or got.get("else")
    if not (pos and zero and neg):
        ctx.undecided("HARMONIC", site, fi, f"branches on the order not recognised: {sorted(got)}")
        return
    want_pos = sorted([f"(-1) ** {m_}", "np.sqrt(2)", f"np.real(sph_harm_y({l_}, {m_}, {th}, {ph}))"])
    want_zero = [f"np.real(sph_harm_y({l_}, 0, {th}, {ph}))"]
    want_neg = sorted([f"(-1) ** {m_}", "np.sqrt(2)", f"np.imag(sph_harm_y({l_}, -{m_}, {th}, {ph}))"])
    ctx.decide(pos[0] == want_pos, "HARMONIC", site + ":m>0", (fi, pos[1]), "Y_lm = (−1)^m √2 Re Y_l^m for m > 0",
               f"factors for m > 0 are {pos[0]}, the real spherical harmonic is (−1)^m·√2·Re Y_l^m: the sign is wrong for modes whose degree and order differ in parity (e.g. l=2, m=1), mirroring the rendered shape")
    ctx.decide(zero[0] == want_zero, "HARMONIC", site + ":m=0", (fi, zero[1]), "Y_l0 = Re Y_l^0", f"factors for m = 0 are {zero[0]}")
    ctx.decide(neg[0] == want_neg, "HARMONIC", site + ":m<0", (fi, neg[1]), "Y_lm = (−1)^m √2 Im Y_l^|m| for m < 0", f"factors for m < 0 are {neg[0]}, expected (−1)^m·√2·Im Y_l^|m|")
    # mode index ↔ (degree, order)
    lm = m.func(f"{SPH}.spherical_index_lm")
    rets = [x for x in ast.walk(lm.node) if isinstance(x, ast.Return)]
    k = lm.params[0]
    fvl = view(m, lm)
    ok = len(rets) == 1 and U(fvl.expand(rets[0].value, rets[0])).replace(" ", "") == f"(int(np.floor(np.sqrt({k}))),{k}-int(np.floor(np.sqrt({k})))*(int(np.floor(np.sqrt({k})))+1))"
    ctx.decide(ok, "HARMONIC", lm.qualname, lm, "mode k ↦ (l = ⌊√k⌋, m = k − l(l+1))", "spherical_index_lm is not (floor(sqrt(k)), k − l(l+1))")
    rk = m.func(f"{SPH}.spherical_harmonic_real_k")
    rets = [x for x in ast.walk(rk.node) if isinstance(x, ast.Return)]
    pk = rk.params
    ok = len(rets) == 1 and U(rets[0].value).replace(" ", "") in (f"spherical_harmonic_real(*spherical_index_lm({pk[0]}),θ={pk[1]},φ={pk[2]})", f"spherical_harmonic_real(*spherical_index_lm({pk[0]}),{pk[1]},{pk[2]})")
    if not ok and len(rets) == 1 and isinstance(rets[0].value, ast.Call) and U(rets[0].value.func) == "spherical_harmonic_real":
        # (degree, order) unpacked into temporaries first
        from ..astutil import call_bindings

        fvk = view(m, rk)
        bnd, unres = call_bindings(fvk, rets[0].value, fi)
        exp_ = {k_: U(fvk.expand(v_, rets[0], stop=tuple(pk))).replace(" ", "") for k_, v_ in bnd.items()}
        ok = not unres and exp_ == {l_: f"spherical_index_lm({pk[0]})[0]", m_: f"spherical_index_lm({pk[0]})[1]", th: pk[1], ph: pk[2]}
    ctx.decide(ok, "HARMONIC", rk.qualname, rk, "mode k is evaluated as the real harmonic of its (degree, order)", "spherical_harmonic_real_k does not evaluate spherical_harmonic_real(*spherical_index_lm(k), θ, φ)")
    sy = m.func(f"{SPH}.spherical_harmonic_symmetric")
    rets = [x for x in ast.walk(sy.node) if isinstance(x, ast.Return)]
    ps = sy.params
    ok = len(rets) == 1 and U(rets[0].value).replace(" ", "") in (f"np.real(sph_harm_y({ps[0]},0,{ps[1]},0.0))", f"np.real(sph_harm_y({ps[0]},0,{ps[1]},0))")
    ctx.decide(ok, "HARMONIC", sy.qualname, sy, "axisymmetric harmonic = Re Y_l^0(θ, 0)", "spherical_harmonic_symmetric is not Re Y_l^0(θ, 0)")
