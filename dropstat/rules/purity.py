"""STATELESS — analysis functions do not consult module-level mutable state (caches, registries filled at run time):
their result must be a function of their arguments, whatever was analysed before in the same process."""

from __future__ import annotations

import ast

from ..astutil import U, MUTATORS
from ..callgraph import CallGraph
from ..model import dotted


def module_state(model):
    """{(module name, name): kind} for module-level names bound to a mutable container or a stateful object"""
    out = {}
    for mod in model.modules.values():
        for st in mod.tree.body:
            tgt = val = None
            if isinstance(st, ast.Assign) and len(st.targets) == 1 and isinstance(st.targets[0], ast.Name):
                tgt, val = st.targets[0].id, st.value
            elif isinstance(st, ast.AnnAssign) and isinstance(st.target, ast.Name) and st.value is not None:
                tgt, val = st.target.id, st.value
            if tgt is None:
                continue
            kind = None
            if isinstance(val, (ast.Dict, ast.List, ast.Set, ast.DictComp, ast.ListComp, ast.SetComp)):
                kind = "container"
            elif isinstance(val, ast.Call):
                nm = model.callee(mod, val) or dotted(val.func) or ""
                last = nm.split(".")[-1]
                if last in ("dict", "list", "set", "defaultdict", "OrderedDict", "deque", "Counter", "WeakValueDictionary", "WeakKeyDictionary"):
                    kind = "container"
                elif nm.startswith("numpy.random") or nm.startswith("random.") or last in ("default_rng", "RandomState", "Generator"):
                    kind = "random generator"
                elif nm in ("itertools.count", "itertools.cycle", "iter"):
                    kind = "iterator"
            if kind:
                out[(mod.name, tgt)] = kind
    return out


def check_stateless(ctx, roots, rule="STATELESS", mutation_only=False):
    """every function reachable from ``roots`` neither reads nor writes module-level mutable state (reading a constant table
    that is never mutated anywhere in the package is allowed)"""
    model = ctx.model
    state = module_state(model)
    # containers that some function of the package mutates (a table that is only ever read is a constant)
    mutated = set()
    for fi in model.all_functions():
        local = {x.id for x in ast.walk(fi.node) if isinstance(x, ast.Name) and isinstance(x.ctx, ast.Store)} | set(fi.all_params)
        # local names that are plain aliases of a module-level container (`table = _TABLE`): writing through them writes the module's object
        alias = {}
        for st_ in ast.walk(fi.node):
            if isinstance(st_, ast.Assign) and len(st_.targets) == 1 and isinstance(st_.targets[0], ast.Name) and isinstance(st_.value, ast.Name) \
                    and st_.value.id not in local and (fi.module.name, st_.value.id) in state:
                alias[st_.targets[0].id] = st_.value.id
        for n in ast.walk(fi.node):
            base = None
            if isinstance(n, ast.Call) and isinstance(n.func, ast.Attribute) and n.func.attr in MUTATORS and isinstance(n.func.value, ast.Name):
                base = n.func.value.id
            elif isinstance(n, (ast.Subscript, ast.Attribute)) and isinstance(n.ctx, (ast.Store, ast.Del)):
                r = n
                while isinstance(r, (ast.Subscript, ast.Attribute)):
                    r = r.value
                if isinstance(r, ast.Name):
                    base = r.id
            if base in alias:
                mutated.add((fi.module.name, alias[base]))
            if base and base not in local and (fi.module.name, base) in state:
                mutated.add((fi.module.name, base))
    cg = CallGraph(model)
    reach = cg.reachable(roots)
    n_fn = 0
    for q in sorted(reach):
        for fi in model.functions.get(q, []):
            n_fn += 1
            local = {x.id for x in ast.walk(fi.node) if isinstance(x, ast.Name) and isinstance(x.ctx, ast.Store)} | set(fi.all_params)
            bad = None
            for n in ast.walk(fi.node):
                if isinstance(n, ast.Name) and n.id not in local:
                    key = (fi.module.name, n.id)
                    kind = state.get(key)
                    if kind in ("random generator", "iterator") or (kind == "container" and key in mutated):
                        bad = (n, kind)
                        break
            ctx.decide(bad is None, rule, fi.qualname, (fi, bad[0]) if bad else fi, "no module-level mutable state",
                       f"uses the module-level {bad[1] if bad else ''} `{bad[0].id if bad else ''}` that is filled at run time: the result depends on what was analysed before in the same "
                       "process (e.g. a cache keyed too coarsely hands a grid the wave numbers of another grid)")
    return n_fn
