"""STATELESS — analysis functions do not consult module-level mutable state (caches, registries filled at run time):
their result must be a function of their arguments, whatever was analysed before in the same process."""

from __future__ import annotations

import ast

from ..astutil import U, MUTATORS
from ..callgraph import CallGraph
from ..model import dotted


def module_state(model):
    """{(module name, name): kind} for module-level names bound to a mutable container or a stateful object"""
    out = {}
    for mod in model.modules.values():
        for st in mod.tree.body:
            tgt = val = None
            if isinstance(st, ast.Assign) and len(st.targets) == 1 and isinstance(st.targets[0], ast.Name):
                tgt, val = st.targets[0].id, st.value
            elif isinstance(st, ast.AnnAssign) and isinstance(st.target, ast.Name) and st.value is not None:
                tgt, val = st.target.id, st.value
            if tgt is None:
                continue
            kind = None
            if isinstance(val, (ast.Dict, ast.List, ast.Set, ast.DictComp, ast.ListComp, ast.SetComp)):
                kind = "container"
            elif isinstance(val, ast.Call):
                nm = model.callee(mod, val) or dotted(val.func) or ""
                last = nm.split(".")[-1]
                if last in ("dict", "list", "set", "defaultdict", "OrderedDict", "deque", "Counter", "WeakValueDictionary", "WeakKeyDictionary"):
                    kind = "container"
                elif nm.startswith("numpy.random") or nm.startswith("random.") or last in ("default_rng", "RandomState", "Generator"):
                    kind = "random generator"
                elif nm in ("itertools.count", "itertools.cycle", "iter"):
                    kind = "iterator"
            if kind:
                out[(mod.name, tgt)] = kind
    return out


def check_stateless(ctx, roots, rule="STATELESS", mutation_only=False):
    """every function reachable from ``roots`` neither reads nor writes module-level mutable state (reading a constant table
    that is never mutated anywhere in the package is allowed)"""
    model = ctx.model
    state = module_state(model)
    # containers that some function of the package mutates (a table that is only ever read is a constant)
    mutated = set()
    for fi in model.all_functions():
        local = {x.id for x in ast.walk(fi.node) if isinstance(x, ast.Name) and isinstance(x.ctx, ast.Store)} | set(fi.all_params)
        # local names that are plain aliases of a module-level container (`table = _TABLE`): writing through them writes the module's object
        alias = {}
        for st_ in ast.walk(fi.node):
            if isinstance(st_, ast.Assign) and len(st_.targets) == 1 and isinstance(st_.targets[0], ast.Name) and isinstance(st_.value, ast.Name) \
                    and st_.value.id not in local and (fi.module.name, st_.value.id) in state:
                alias[st_.targets[0].id] = st_.value.id
        for n in ast.walk(fi.node):
            base = None
            if isinstance(n, ast.Call) and isinstance(n.func, ast.Attribute) and n.func.attr in MUTATORS and isinstance(n.func.value, ast.Name):
                base = n.func.value.id
            elif isinstance(n, (ast.Subscript, ast.Attribute)) and isinstance(n.ctx, (ast.Store, ast.Del)):
                r = n
                while isinstance(r, (ast.Subscript, ast.Attribute)):
                    r = r.value
                if isinstance(r, ast.Name):
                    base = r.id
            if isinstance(n, ast.AugAssign) and isinstance(n.target, ast.Name) and isinstance(n.op, (ast.BitOr, ast.Add, ast.BitAnd, ast.Sub)):
                # `d |= other` / `lst += other` modify the object in place (dict, set, list)
                base = n.target.id
                if base in alias:
                    mutated.add((fi.module.name, alias[base]))
                    base = None
                elif (fi.module.name, base) in state and any(isinstance(g_, ast.Global) and base in g_.names for g_ in ast.walk(fi.node)):
                    mutated.add((fi.module.name, base))
                    base = None
                else:
                    base = None
            if base in alias:
                mutated.add((fi.module.name, alias[base]))
            if base and base not in local and (fi.module.name, base) in state:
                mutated.add((fi.module.name, base))
    cg = CallGraph(model)
    reach = cg.reachable(roots)
    n_fn = 0
    for q in sorted(reach):
        for fi in model.functions.get(q, []):
            n_fn += 1
            local = {x.id for x in ast.walk(fi.node) if isinstance(x, ast.Name) and isinstance(x.ctx, ast.Store)} | set(fi.all_params)
            bad = None
            # a memoised helper hands out the same (mutable) object on every hit and ignores whatever its key does not contain
            memo = [d for d in fi.decorators if d.split(".")[-1] in ("lru_cache", "cache")]
            if memo:
                rets_ = [r.value for r in ast.walk(fi.node) if isinstance(r, ast.Return) and r.value is not None]
                if not (rets_ and all(isinstance(v, ast.Constant) or (isinstance(v, ast.Call) and (dotted(v.func) or "") in ("float", "int", "bool", "str", "tuple", "frozenset", "len")) for v in rets_)):
                    ctx.violate(rule, fi.qualname + ":memoised", fi, f"{fi.name} is memoised ({memo[0]}) and returns an object its callers can modify: every later call with the same key receives "
                                "the modified object, so the result of an analysis depends on what was done with earlier results in the same process")
                    continue
            for n in ast.walk(fi.node):
                if isinstance(n, ast.Name) and n.id not in local:
                    key = (fi.module.name, n.id)
                    kind = state.get(key)
                    if kind in ("random generator", "iterator") or (kind == "container" and key in mutated):
                        bad = (n, kind)
                        break
            ctx.decide(bad is None, rule, fi.qualname, (fi, bad[0]) if bad else fi, "no module-level mutable state",
                       f"uses the module-level {bad[1] if bad else ''} `{bad[0].id if bad else ''}` that is filled at run time: the result depends on what was analysed before in the same "
                       "process (e.g. a cache keyed too coarsely hands a grid the wave numbers of another grid)")
    return n_fn


# ---------------------------------------------------------------------------------------------------------------------
# LATEBIND — functions created in a loop that read the loop's variables when they are *called*
def late_binding_sites(tree):
    """[(loop, function node, names)] for lambdas / nested functions defined in the body of a `for` loop that read a variable
    the loop rebinds (its target, or a name assigned in its body) as a free variable — not captured through a default
    argument and not called on the spot.  When such a function is kept (stored in a table, appended, returned) every copy
    sees the value of the *last* iteration."""
    out = []
    for loop in ast.walk(tree):
        if not isinstance(loop, (ast.For, ast.AsyncFor)):
            continue
        rebound = {x.id for x in ast.walk(loop.target) if isinstance(x, ast.Name)}
        for st in loop.body:
            for x in ast.walk(st):
                if isinstance(x, ast.Name) and isinstance(x.ctx, ast.Store):
                    rebound.add(x.id)
        called_now = {id(c.func) for st in loop.body for c in ast.walk(st) if isinstance(c, ast.Call)}
        for st in loop.body:
            for fn in ast.walk(st):
                if not isinstance(fn, (ast.Lambda, ast.FunctionDef)):
                    continue
                if isinstance(fn, ast.Lambda) and id(fn) in called_now:
                    continue
                a = fn.args
                params = {p.arg for p in a.posonlyargs + a.args + a.kwonlyargs} | ({a.vararg.arg} if a.vararg else set()) | ({a.kwarg.arg} if a.kwarg else set())
                body_nodes = [fn.body] if isinstance(fn, ast.Lambda) else fn.body
                local = {x.id for b in body_nodes for x in ast.walk(b) if isinstance(x, ast.Name) and isinstance(x.ctx, ast.Store)}
                free = {x.id for b in body_nodes for x in ast.walk(b) if isinstance(x, ast.Name) and isinstance(x.ctx, ast.Load)} - params - local
                if isinstance(fn, ast.FunctionDef):
                    rebound_here = rebound - {fn.name}
                    # a nested def that is only called inside the same iteration is fine
                    uses = [x for s2 in loop.body for x in ast.walk(s2) if isinstance(x, ast.Name) and x.id == fn.name and isinstance(x.ctx, ast.Load)]
                    if uses and all(id(u) in called_now for u in uses):
                        continue
                else:
                    rebound_here = rebound
                hit = sorted(free & rebound_here)
                if hit:
                    out.append((loop, fn, hit))
    return out


_LATEBIND_FIXTURE = """
TABLE = {}
for _name, _rule in [("a", min), ("b", max)]:
    TABLE[_name] = lambda data: float(_rule(data))
OK = {}
for _name, _rule in [("a", min), ("b", max)]:
    OK[_name] = lambda data, _rule=_rule: float(_rule(data))
"""


def check_late_binding(ctx, module_names, rule="LATEBIND"):
    from ..model import AnalysisError

    fx = late_binding_sites(ast.parse(_LATEBIND_FIXTURE))
    if len(fx) != 1 or fx[0][2] != ["_rule"]:
        raise AnalysisError("LATEBIND fixture was not flagged exactly once — rule is blind", rule)
    ctx.info(rule, "fixture:late-binding", None, "positive example flagged (rule is live)")
    n = 0
    for mn in module_names:
        mod = ctx.model.modules.get(mn)
        if mod is None:
            continue
        n += 1
        sites = late_binding_sites(mod.tree)
        if sites:
            for loop, fn, names in sites:
                ctx.violate(rule, f"{mn}:{getattr(fn, 'lineno', 0)}", fn,
                            f"`{U(fn)[:70]}` is created in a loop and reads the loop variable(s) {names} only when it is called: every function kept from this loop uses the value of the "
                            "last iteration (all entries of a dispatch table behave like the last one)")
        else:
            ctx.hold(rule, mn, None, "no function created in a loop captures a loop variable by name")
    return n


# ---------------------------------------------------------------------------------------------------------------------
# MUTDEFAULT — a mutable default argument that the function fills or hands out is state shared by all calls
def mutable_default_sites(tree):
    out = []
    for fn in ast.walk(tree):
        if not isinstance(fn, (ast.FunctionDef, ast.AsyncFunctionDef)):
            continue
        a = fn.args
        pos = a.posonlyargs + a.args
        pairs = list(zip(pos[len(pos) - len(a.defaults):], a.defaults)) + [(p, d) for p, d in zip(a.kwonlyargs, a.kw_defaults) if d is not None]
        for p, d in pairs:
            mutable = isinstance(d, (ast.Dict, ast.List, ast.Set)) or (isinstance(d, ast.Call) and U(d.func) in ("dict", "list", "set", "collections.defaultdict", "defaultdict"))
            if not mutable:
                continue
            nm = p.arg
            if any(isinstance(x, ast.Name) and x.id == nm and isinstance(x.ctx, ast.Store) for x in ast.walk(fn)):
                rebinds = [x for x in ast.walk(fn) if isinstance(x, (ast.Assign, ast.AnnAssign)) and any(isinstance(t, ast.Name) and t.id == nm for t in (x.targets if isinstance(x, ast.Assign) else [x.target]))]
            else:
                rebinds = []
            uses = []
            for x in ast.walk(fn):
                tg = x.targets if isinstance(x, ast.Assign) else ([x.target] if isinstance(x, ast.AugAssign) else [])
                for t in tg:
                    if isinstance(t, ast.Subscript) and isinstance(t.value, ast.Name) and t.value.id == nm:
                        uses.append(x)
                if isinstance(x, ast.Call) and isinstance(x.func, ast.Attribute) and isinstance(x.func.value, ast.Name) and x.func.value.id == nm and x.func.attr in MUTATORS:
                    uses.append(x)
                if isinstance(x, ast.Return) and x.value is not None:
                    direct = [x.value] + (list(x.value.elts) if isinstance(x.value, (ast.Tuple, ast.List)) else [])
                    if any(isinstance(y, ast.Name) and y.id == nm for y in direct):
                        uses.append(x)  # the default object itself is handed to the caller
            if uses and not rebinds:
                out.append((fn, p, uses[0]))
    return out


_MUTDEFAULT_FIXTURE = """
def bad(x, acc={}):
    acc[x] = 1
    return acc
def good(x, acc=None):
    acc = {} if acc is None else acc
    acc[x] = 1
    return acc
def harmless(x, opts={}):
    return opts.get("a", x)
"""


def check_mutable_defaults(ctx, module_names, rule="MUTDEFAULT"):
    from ..model import AnalysisError

    fx = mutable_default_sites(ast.parse(_MUTDEFAULT_FIXTURE))
    if len(fx) != 1 or fx[0][0].name != "bad":
        raise AnalysisError("MUTDEFAULT fixture was not flagged exactly once — rule is blind", rule)
    ctx.info(rule, "fixture:mutable-default", None, "positive example flagged (rule is live)")
    n = 0
    for mn in module_names:
        mod = ctx.model.modules.get(mn)
        if mod is None:
            continue
        n += 1
        sites = mutable_default_sites(mod.tree)
        if sites:
            for fn, p, use in sites:
                ctx.violate(rule, f"{mn}.{fn.name}:{p.arg}", use,
                            f"`{fn.name}` fills or hands out its mutable default argument `{p.arg}` (`{U(use)[:60]}`): the same object serves every call that omits the argument, so entries written by one "
                            "call (amplitudes, a width) are still there in the next one — the result depends on what was analysed before in the same process")
        else:
            ctx.hold(rule, mn, None, "no function modifies or returns a mutable default argument")
    return n
