"""NONETEST — optional numeric values (None = unset, 0 = valid) must be tested with
``is None`` / ``is not None``, never by truthiness."""

from __future__ import annotations

import ast

from ..astutil import U, view, compare_parts
from ..cfg import walk_no_nested


def _tests(fi):
    for n in ast.walk(fi.node):
        if isinstance(n, (ast.If, ast.While, ast.IfExp)):
            yield n, n.test
        elif isinstance(n, ast.comprehension):
            for t in n.ifs:
                yield n, t
    # `value or default` / `value and f(value)` used as an expression: every operand but the last is judged by truthiness
    in_tests = set()
    for n in ast.walk(fi.node):
        if isinstance(n, (ast.If, ast.While, ast.IfExp)):
            in_tests |= {id(x) for x in ast.walk(n.test)}
    for st in ast.walk(fi.node):
        if isinstance(st, ast.stmt):
            for n in ast.walk(st):
                if isinstance(n, ast.BoolOp) and id(n) not in in_tests and len(n.values) >= 2:
                    yield st, ast.BoolOp(op=n.op, values=list(n.values[:-1]) + [ast.Constant(value=True)])
                    in_tests.add(id(n))


def _truthiness_uses(test, expr_txt):
    """sub-tests in which ``expr_txt`` is used by truthiness"""
    out = []

    def rec(t):
        if isinstance(t, ast.BoolOp):
            for v in t.values:
                rec(v)
        elif isinstance(t, ast.UnaryOp) and isinstance(t.op, ast.Not):
            rec(t.operand)
        elif U(t) == expr_txt:
            out.append(t)

    rec(test)
    return out


def check(ctx, fi, expr_txt, what, rule="NONETEST", require=True):
    """``expr_txt`` (e.g. 'time', 'droplet.interface_width') in function ``fi``"""
    site = f"{fi.qualname}:{expr_txt}"
    bad, good = [], []
    for holder, test in _tests(fi):
        for t in _truthiness_uses(test, expr_txt):
            bad.append((holder, test))
        for n in ast.walk(test):
            cp = compare_parts(n) if isinstance(n, ast.Compare) else None
            if cp and U(cp[0]) == expr_txt and isinstance(cp[1], (ast.Is, ast.IsNot)) and isinstance(cp[2], ast.Constant) and cp[2].value is None:
                good.append(n)
    if bad:
        holder, test = bad[0]
        ctx.violate(rule, site, (fi, holder if hasattr(holder, "lineno") else fi.node),
                    f"`{U(test)[:60]}` tests {what} by truthiness: the valid value 0 is treated like an unset value (None)")
    elif good:
        ctx.hold(rule, site, (fi, good[0]), f"{what} is tested with `is None`")
    elif require:
        ctx.undecided(rule, site, fi, f"no test of {what} found")
