"""Rules about the *supporting cast*: code outside the functions a property names that the property nevertheless
runs through — dtype declarations, property setters/accessors, the scalar-argument decorator, constructors, dispatchers.

  LAYOUT:field-types   every field of every droplet dtype is declared as `float` (never derived from the caller's arrays)
  ACCESSOR             DropletTrack.start/end/first/last are the first/last element of the lists that append() appends to
  WRAP                 enable_scalar_args passes array arguments through unchanged and returns the method's result as is
  SHAPE:matmul         methods that receive grid-shaped angle arrays are element-wise in them (no matmul/dot contraction)
  REJECT:ctor-dtype    Emulsion.__init__ applies an explicitly given dtype before the members are added
  NONEARITH            a value that may be None (worker count for 'auto') is not used in arithmetic
  CACHE                no memoised helper hands out shared mutable results
"""
from __future__ import annotations

import ast

from ..astutil import U, view, names_in, value_cases, kwarg
from ..core import Ctx
from ..model import dotted

DROP = "droplets.droplets"
TR = "droplets.droplet_tracks"
EM = "droplets.emulsions"
IMG = "droplets.image_analysis"


def compose(ctx: Ctx, fn, *args, keep=None, site_filter=None, **kwargs):
    """run another rule function and keep its findings (optionally only those of some rule names / sites)"""
    sub = Ctx(ctx.model, ctx.prop, ctx.tier)
    fn(sub, *args, **kwargs)
    for f in sub.findings:
        if (keep is None or f.rule in keep) and (site_filter is None or site_filter(f.site)):
            ctx.findings.append(f)
    ctx.functions |= sub.functions
    return sub


# ------------------------------------------------------------------------------------------------ LAYOUT:field-types
def check_field_types(ctx: Ctx, rule="LAYOUT"):
    """The record of a droplet stores every quantity as a double: a field type taken from the caller's array (float32
    positions, integer arrays) makes stored radii/positions differ from the values the conversions return and lets distance
    computations run in single precision, where `overlaps` (Python floats) and the distance matrix disagree."""
    m = ctx.model
    n = 0
    for ci in m.all_classes() if hasattr(m, "all_classes") else []:
        pass
    for fi in m.all_functions():
        if fi.module.name != DROP or fi.name != "get_dtype" or fi.cls is None:
            continue
        bad = None
        seen = 0
        for t in ast.walk(fi.node):
            if isinstance(t, ast.Tuple) and 2 <= len(t.elts) <= 3 and isinstance(t.elts[0], ast.Constant) and isinstance(t.elts[0].value, str):
                seen += 1
                ty = t.elts[1]
                if not (isinstance(ty, ast.Name) and ty.id == "float") and U(ty) not in ("np.float64", "np.double", "'f8'", "np.float_"):
                    bad = bad or t
        if not seen:
            continue
        n += 1
        ctx.decide(bad is None, rule, f"{fi.qualname}:field-types", (fi, bad) if bad is not None else fi, "every field of the record is a double",
                   f"field `{U(bad)[:70] if bad is not None else ''}` is not declared as `float`: its storage type follows the caller's data, so values are rounded when stored "
                   "(from_volume(...).radius differs from radius_from_volume(...)) and distances between such droplets are evaluated in reduced precision")
    return n


# ------------------------------------------------------------------------------------------------------- ACCESSOR
def check_track_accessors(ctx: Ctx, rule="ACCESSOR"):
    """Tracking keeps a track alive while `track.end` equals the time of the previous frame and matches against `track.last`:
    both must be the element most recently appended, whatever the values are (decreasing times, vanished droplets)."""
    m = ctx.model
    app = m.func(f"{TR}.DropletTrack.append")
    # which list receives the droplet and which the time?  derived from append itself
    lists = {}
    for c in ast.walk(app.node):
        if isinstance(c, ast.Call) and isinstance(c.func, ast.Attribute) and c.func.attr == "append" and isinstance(c.func.value, ast.Attribute) \
                and isinstance(c.func.value.value, ast.Name) and c.func.value.value.id == "self" and c.args:
            role = "time" if "time" in names_in(c.args[0]) and "droplet" not in names_in(c.args[0]) else "droplet"
            lists[role] = c.func.value.attr
    if set(lists) != {"time", "droplet"}:
        ctx.undecided(rule, app.qualname, app, "the two lists that append() extends were not identified")
        return 0
    want = {"start": (lists["time"], 0), "end": (lists["time"], -1), "first": (lists["droplet"], 0), "last": (lists["droplet"], -1)}
    n = 0
    for name, (attr, idx) in want.items():
        q = f"{TR}.DropletTrack.{name}"
        if not m.has_func(q):
            continue
        fi = m.func(q)
        fv = view(m, fi)
        rets = [r for r in fv.return_nodes() if r.stmt.value is not None]
        if not rets:
            ctx.undecided(rule, q, fi, "no return value")
            continue
        vals = set()
        for r in rets:
            for _dec, v in value_cases(fv, r.stmt, r.stmt.value):
                vals.add(U(v).replace(" ", ""))
        ok = vals == {f"self.{attr}[{idx}]"}
        n += 1
        ctx.decide(ok, rule, q, (fi, rets[0].stmt), f"{name} is self.{attr}[{idx}]",
                   f"`{name}` returns {sorted(vals)} instead of self.{attr}[{idx}]: the tracking loop continues a track while `end` is the time of the frame appended last and "
                   "compares new droplets with `last`, the droplet appended last — with decreasing times or vanished (zero-radius) droplets another element is returned")
    return n


# ----------------------------------------------------------------------------------------------------------- WRAP
def check_scalar_wrapper(ctx: Ctx, rule="WRAP"):
    """enable_scalar_args wraps interface_distance / interface_position / interface_curvature of every perturbed class: for
    array arguments it must hand the arguments on unchanged (after conversion to arrays) and return the result unchanged;
    for scalars it adds one axis and strips it again."""
    m = ctx.model
    q = "droplets.tools.misc.enable_scalar_args"
    if not m.has_func(q):
        ctx.undecided(rule, q, None, "decorator not found")
        return 0
    outer = m.func(q)
    inner = [f for f in m.all_functions() if f.parent is outer]
    if len(inner) != 1:
        ctx.undecided(rule, q, outer, "wrapper function not found")
        return 0
    fi = inner[0]
    fv = view(m, fi)
    meth = outer.params[0]
    va = fi.node.args.vararg.arg if fi.node.args.vararg else None
    bad, n_ok = None, 0

    def arg_list_ok(e, depth=0):
        """list of the converted arguments, possibly with one added axis: only number_array / [None] applied per element"""
        if isinstance(e, ast.Name) and e.id == va:
            return True
        if isinstance(e, (ast.ListComp, ast.GeneratorExp)) and len(e.generators) == 1 and not e.generators[0].ifs and isinstance(e.generators[0].target, ast.Name):
            g = e.generators[0]
            v = g.target.id
            elt = e.elt
            if isinstance(elt, ast.Subscript) and isinstance(elt.value, ast.Name) and elt.value.id == v and U(elt.slice) in ("None", "np.newaxis"):
                return arg_list_ok(g.iter, depth + 1)
            if isinstance(elt, ast.Call) and (dotted(elt.func) or "").split(".")[-1] in ("number_array", "asarray", "asanyarray", "array") and elt.args \
                    and isinstance(elt.args[0], ast.Name) and elt.args[0].id == v:
                return arg_list_ok(g.iter, depth + 1)
            if isinstance(elt, ast.Name) and elt.id == v:
                return arg_list_ok(g.iter, depth + 1)
            return False
        return None

    for r in fv.return_nodes():
        if r.stmt.value is None:
            continue
        for _dec, v in value_cases(fv, r.stmt, r.stmt.value):
            vtxt = U(v)
            core = v
            if isinstance(core, ast.Subscript) and U(core.slice) == "0":
                core = core.value
            if not (isinstance(core, ast.Call) and isinstance(core.func, ast.Name) and core.func.id == meth):
                # the method's result is post-processed (reshape, astype, …) or something else is returned
                if any(isinstance(c, ast.Call) and isinstance(c.func, ast.Name) and c.func.id == meth for c in ast.walk(v)):
                    bad = bad or (r.stmt, f"the method's result is post-processed: `{vtxt[:80]}`")
                else:
                    ctx.undecided(rule, fi.qualname, (fi, r.stmt), f"return value `{vtxt[:60]}` not understood")
                    return 0
                continue
            star = [a for a in core.args if isinstance(a, ast.Starred)]
            if len(core.args) != 2 or len(star) != 1 or U(core.args[0]) != fi.params[0]:
                ctx.undecided(rule, fi.qualname, (fi, r.stmt), "call of the wrapped method not understood")
                return 0
            ok = arg_list_ok(star[0].value)
            if ok is None:
                ctx.undecided(rule, fi.qualname, (fi, r.stmt), "argument list not understood")
                return 0
            if not ok:
                bad = bad or (r.stmt, f"the arguments are modified before the call: `{U(star[0].value)[:80]}`")
            else:
                n_ok += 1
    ctx.decide(bad is None and n_ok >= 2, rule, fi.qualname, (fi, bad[0]) if bad else fi, "arguments pass through unchanged, the result is returned as is (scalars: one axis added and stripped)",
               (bad[1] if bad else "fewer than two pass-through returns") + " — for n-dimensional or non-contiguous angle arrays (as the renderer passes them) each returned value no longer belongs to the "
               "direction at its index, so interface distance, position and curvature disagree")
    return 1


# ---------------------------------------------------------------------------------------------------- SHAPE:matmul
def check_elementwise_shape_methods(ctx: Ctx, rule="SHAPE"):
    """methods under enable_scalar_args get the angle arrays of a whole grid (any number of axes): a matrix product contracts
    the last axis of its left operand with the second-to-last of its right operand, which is an angle axis for n-d angles"""
    m = ctx.model
    n = 0
    for fi in m.all_functions():
        if fi.module.name != DROP or not any(d.endswith("enable_scalar_args") for d in fi.decorators):
            continue
        bad = None
        for x in ast.walk(fi.node):
            if isinstance(x, ast.BinOp) and isinstance(x.op, ast.MatMult):
                bad = bad or x
            elif isinstance(x, ast.Call) and (dotted(x.func) or "") in ("np.matmul", "np.dot", "numpy.matmul", "numpy.dot") and len(x.args) == 2:
                bad = bad or x
        n += 1
        ctx.decide(bad is None, rule, fi.qualname + ":elementwise", (fi, bad) if bad is not None else fi, "no matrix product over angle arrays",
                   f"`{U(bad)[:70] if bad is not None else ''}` is a matrix product: for the two-dimensional angle arrays of a cylindrical or Cartesian grid numpy treats the operand as a stack of "
                   "matrices and raises ValueError (or contracts an angle axis), so rendering and refinement of such droplets abort")
    return n


# ------------------------------------------------------------------------------------------------ REJECT:ctor-dtype
def check_ctor_dtype_precedence(ctx: Ctx, rule="REJECT"):
    m = ctx.model
    q = f"{EM}.Emulsion.__init__"
    fi = m.func(q)
    fv = view(m, fi)
    if "dtype" not in fi.all_params:
        ctx.undecided(rule, q + ":ctor-dtype", fi, "no dtype parameter")
        return 0
    adds = [s for s in fv.statements() for c in ast.walk(s) if isinstance(c, ast.Call) and isinstance(c.func, ast.Attribute) and c.func.attr in ("extend", "append")
            and U(c.func.value) in ("self", "super()")]
    stores = [s for s in fv.statements() if isinstance(s, (ast.Assign, ast.AnnAssign)) and U(s.targets[0] if isinstance(s, ast.Assign) else s.target) == "self.dtype"
              and getattr(s, "value", None) is not None and "dtype" in names_in(fv.expand(s.value, s, allow_mutated=True))]
    if not adds or not stores:
        ctx.undecided(rule, q + ":ctor-dtype", fi, "stores of self.dtype / member insertion not found")
        return 0
    from .refine import _reaches

    late = [s for s in stores if any(_reaches(fv, a, s) and not _reaches(fv, s, a) for a in adds)]
    ctx.decide(not late, rule, q + ":ctor-dtype", (fi, late[0]) if late else fi, "an explicitly given dtype is stored before the members are added",
               f"`{U(late[0])[:70] if late else ''}` applies the dtype argument only after the members were added: with force_consistency the members are compared with the first "
               "member's layout instead of the requested one, so droplets of the wrong dimension or layout are accepted")
    return 1


# ------------------------------------------------------------------------------------------------------- NONEARITH
def check_none_arithmetic(ctx: Ctx, quals, rule="PARMAP"):
    """`max_workers = None if num_processes == 'auto' else num_processes`: the documented setting 'auto' makes the value None;
    arithmetic on it raises TypeError only for that setting"""
    m = ctx.model
    n = 0
    for q in quals:
        if not m.has_func(q):
            continue
        fi = m.func(q)
        maybe_none = set()
        for s in ast.walk(fi.node):
            if isinstance(s, ast.Assign) and len(s.targets) == 1 and isinstance(s.targets[0], ast.Name):
                v = s.value
                if isinstance(v, ast.IfExp) and any(isinstance(x, ast.Constant) and x.value is None for x in (v.body, v.orelse)):
                    maybe_none.add(s.targets[0].id)
                elif isinstance(v, ast.Constant) and v.value is None:
                    maybe_none.add(s.targets[0].id)
        if not maybe_none:
            continue
        fv = view(m, fi)
        from ..astutil import stmt_index

        si = stmt_index(fv)
        bad = None
        for s in fv.statements():
            for x in ast.walk(s):
                if isinstance(x, ast.BinOp) and isinstance(x.op, (ast.Add, ast.Sub, ast.Mult, ast.Div, ast.FloorDiv, ast.Mod, ast.Pow)):
                    hit = (names_in(x.left) | names_in(x.right)) & maybe_none
                    # a direct operand (not inside a call that may handle None)
                    direct = {o.id for o in (x.left, x.right) if isinstance(o, ast.Name)} & maybe_none
                    if direct:
                        guards = " ".join(U(g[0]) + ("" if g[1] else "!") for g in si.guards(s)) if hasattr(si, "guards") else ""
                        if not any(f"{nm} is not None" in guards or f"{nm} is None!" in guards for nm in direct):
                            bad = bad or (s, x, sorted(direct)[0])
        n += 1
        ctx.decide(bad is None, rule, f"{q}:none-arithmetic", (fi, bad[0]) if bad else fi, "values that may be None are only passed on",
                   f"`{U(bad[1])[:60] if bad else ''}` computes with `{bad[2] if bad else ''}`, which is None for the documented setting num_processes='auto': TypeError for that setting only")
    return n


# ----------------------------------------------------------------------------------------------------------- CACHE
_IMMUTABLE_CALLS = ("float", "int", "bool", "str", "tuple", "frozenset", "len")


def check_no_shared_cache(ctx: Ctx, modules=(IMG, EM, DROP, TR, "droplets.tools.spherical", "droplets.tools.misc"), rule="STATELESS"):
    """a memoised function returns the *same* object on every hit: when that object is an array/list the caller can modify,
    later calls see the modification; and whatever the key does not contain is ignored"""
    m = ctx.model
    bad = []
    n = 0
    for fi in m.all_functions():
        if fi.module.name not in modules:
            continue
        n += 1
        decs = [d for d in fi.decorators if d.split(".")[-1] in ("lru_cache", "cache", "cached_property") or d.split("(")[0].split(".")[-1] in ("lru_cache", "cache")]
        if not decs:
            continue
        rets = [r.value for r in ast.walk(fi.node) if isinstance(r, ast.Return) and r.value is not None]
        immutable = rets and all(isinstance(v, ast.Constant) or (isinstance(v, ast.Call) and (dotted(v.func) or "") in _IMMUTABLE_CALLS) for v in rets)
        if not immutable:
            bad.append(fi)
    ctx.decide(not bad, rule, "package:memoised-helpers", bad[0] if bad else None, "no memoised function hands out a shared mutable result",
               f"{bad[0].qualname if bad else ''} is memoised (functools cache) and returns an object the caller may modify: every later call with the same key gets the modified object, "
               "so the result of an analysis depends on what was done with earlier results in the same process")
    return n


# --------------------------------------------------------------------------------------------------------- INVPERM
def _invperm_sites(fnode):
    """[(subscript node, order name)] where an array that is already in sorted order (computed from X[order]) is indexed with
    `order` again: that *gathers* with the sort permutation where the inverse permutation (out[order] = v, or
    v[np.argsort(order)]) is needed to get back to the original order"""
    orders = set()
    for s in ast.walk(fnode):
        if isinstance(s, ast.Assign) and len(s.targets) == 1 and isinstance(s.targets[0], ast.Name) and isinstance(s.value, ast.Call) \
                and (dotted(s.value.func) or "").split(".")[-1] in ("argsort", "lexsort"):
            orders.add(s.targets[0].id)
    if not orders:
        return []

    def uses_order(sl, o):
        return any(isinstance(x, ast.Name) and x.id == o for x in ast.walk(sl))

    out = []
    for o in orders:
        tainted = set()
        for _ in range(6):
            for s in ast.walk(fnode):
                if isinstance(s, ast.Assign) and len(s.targets) == 1 and isinstance(s.targets[0], ast.Name) and s.targets[0].id not in tainted and s.targets[0].id != o:
                    v = s.value
                    srt = any(isinstance(x, ast.Subscript) and uses_order(x.slice, o) and not (names_in(x.value) & tainted) for x in ast.walk(v))
                    if srt or (names_in(v) & tainted):
                        # an inverse mapping (scatter) is a subscript *store*, not an assignment to a plain name: everything here stays sorted
                        tainted.add(s.targets[0].id)
        for x in ast.walk(fnode):
            if isinstance(x, ast.Subscript) and isinstance(x.ctx, ast.Load) and uses_order(x.slice, o) and (names_in(x.value) & tainted):
                # order[...] itself (building partner indices) is not an array of values in sorted order
                if isinstance(x.value, ast.Name) and x.value.id == o:
                    continue
                out.append((x, o))
    return out


def check_inverse_permutation(ctx: Ctx, modules=(EM, TR, IMG), rule="INVPERM"):
    fx = ast.parse("def f(p):\n    order = np.argsort(p)\n    gaps = np.diff(p[order])\n    near = np.r_[gaps, np.inf]\n    bad = near[order]\n"
                   "    good = np.empty_like(near)\n    good[order] = near\n    return bad, good\n").body[0]
    if len(_invperm_sites(fx)) != 1:
        from ..model import AnalysisError

        raise AnalysisError("INVPERM fixture was not flagged exactly once — rule is blind", rule)
    m = ctx.model
    bad = []
    n = 0
    for fi in m.all_functions():
        if fi.module.name in modules and fi.parent is None:
            n += 1
            for x, o in _invperm_sites(fi.node):
                bad.append((fi, x, o))
    ctx.decide(not bad, rule, "package:sorted-order", (bad[0][0], bad[0][1]) if bad else None, "no array in sorted order is indexed with the sort permutation again",
               f"`{U(bad[0][1])[:70] if bad else ''}` indexes values that are already in sorted order with the sort permutation `{bad[0][2] if bad else ''}`: that applies the permutation twice "
               "instead of inverting it, so each value lands at another droplet's index (correct only when the permutation is its own inverse, e.g. two droplets or reversed input)")
    return n
