"""Rules about the *supporting cast*: code outside the functions a property names that the property nevertheless
runs through — dtype declarations, property setters/accessors, the scalar-argument decorator, constructors, dispatchers.

  LAYOUT:field-types   every field of every droplet dtype is declared as `float` (never derived from the caller's arrays)
  ACCESSOR             DropletTrack.start/end/first/last are the first/last element of the lists that append() appends to
  WRAP                 enable_scalar_args passes array arguments through unchanged and returns the method's result as is
  SHAPE:matmul         methods that receive grid-shaped angle arrays are element-wise in them (no matmul/dot contraction)
  REJECT:ctor-dtype    Emulsion.__init__ applies an explicitly given dtype before the members are added
  NONEARITH            a value that may be None (worker count for 'auto') is not used in arithmetic
  CACHE                no memoised helper hands out shared mutable results
"""
from __future__ import annotations

import ast

from ..astutil import U, view, names_in, value_cases, kwarg
from ..core import Ctx
from ..model import dotted

DROP = "droplets.droplets"
TR = "droplets.droplet_tracks"
EM = "droplets.emulsions"
IMG = "droplets.image_analysis"


def compose(ctx: Ctx, fn, *args, keep=None, site_filter=None, **kwargs):
    """run another rule function and keep its findings (optionally only those of some rule names / sites)"""
    sub = Ctx(ctx.model, ctx.prop, ctx.tier)
    fn(sub, *args, **kwargs)
    for f in sub.findings:
        if (keep is None or f.rule in keep) and (site_filter is None or site_filter(f.site)):
            ctx.findings.append(f)
    ctx.functions |= sub.functions
    return sub


# ------------------------------------------------------------------------------------------------ LAYOUT:field-types
def check_field_types(ctx: Ctx, rule="LAYOUT"):
    """The record of a droplet stores every quantity as a double: a field type taken from the caller's array (float32
    positions, integer arrays) makes stored radii/positions differ from the values the conversions return and lets distance
    computations run in single precision, where `overlaps` (Python floats) and the distance matrix disagree."""
    m = ctx.model
    n = 0
    for ci in m.all_classes() if hasattr(m, "all_classes") else []:
        pass
    for fi in m.all_functions():
        if fi.module.name != DROP or fi.name != "get_dtype" or fi.cls is None:
            continue
        bad = None
        seen = 0
        for t in ast.walk(fi.node):
            if isinstance(t, ast.Tuple) and 2 <= len(t.elts) <= 3 and isinstance(t.elts[0], ast.Constant) and isinstance(t.elts[0].value, str):
                seen += 1
                ty = t.elts[1]
                if not (isinstance(ty, ast.Name) and ty.id == "float") and U(ty) not in ("np.float64", "np.double", "'f8'", "np.float_"):
                    bad = bad or t
        if not seen:
            continue
        n += 1
        ctx.decide(bad is None, rule, f"{fi.qualname}:field-types", (fi, bad) if bad is not None else fi, "every field of the record is a double",
                   f"field `{U(bad)[:70] if bad is not None else ''}` is not declared as `float`: its storage type follows the caller's data, so values are rounded when stored "
                   "(from_volume(...).radius differs from radius_from_volume(...)) and distances between such droplets are evaluated in reduced precision")
    return n


# ------------------------------------------------------------------------------------------------------- ACCESSOR
def check_track_accessors(ctx: Ctx, rule="ACCESSOR"):
    """Tracking keeps a track alive while `track.end` equals the time of the previous frame and matches against `track.last`:
    both must be the element most recently appended, whatever the values are (decreasing times, vanished droplets)."""
    m = ctx.model
    app = m.func(f"{TR}.DropletTrack.append")
    # which list receives the droplet and which the time?  derived from append itself
    lists = {}
    for c in ast.walk(app.node):
        if isinstance(c, ast.Call) and isinstance(c.func, ast.Attribute) and c.func.attr == "append" and isinstance(c.func.value, ast.Attribute) \
                and isinstance(c.func.value.value, ast.Name) and c.func.value.value.id == "self" and c.args:
            role = "time" if "time" in names_in(c.args[0]) and "droplet" not in names_in(c.args[0]) else "droplet"
            lists[role] = c.func.value.attr
    if set(lists) != {"time", "droplet"}:
        ctx.undecided(rule, app.qualname, app, "the two lists that append() extends were not identified")
        return 0
    want = {"start": (lists["time"], 0), "end": (lists["time"], -1), "first": (lists["droplet"], 0), "last": (lists["droplet"], -1)}
    n = 0
    for name, (attr, idx) in want.items():
        q = f"{TR}.DropletTrack.{name}"
        if not m.has_func(q):
            continue
        fi = m.func(q)
        fv = view(m, fi)
        rets = [r for r in fv.return_nodes() if r.stmt.value is not None]
        if not rets:
            ctx.undecided(rule, q, fi, "no return value")
            continue
        vals = set()
        for r in rets:
            for _dec, v in value_cases(fv, r.stmt, r.stmt.value):
                vals.add(U(v).replace(" ", ""))
        ok = vals == {f"self.{attr}[{idx}]"}
        n += 1
        ctx.decide(ok, rule, q, (fi, rets[0].stmt), f"{name} is self.{attr}[{idx}]",
                   f"`{name}` returns {sorted(vals)} instead of self.{attr}[{idx}]: the tracking loop continues a track while `end` is the time of the frame appended last and "
                   "compares new droplets with `last`, the droplet appended last — with decreasing times or vanished (zero-radius) droplets another element is returned")
    return n


# ----------------------------------------------------------------------------------------------------------- WRAP
def check_scalar_wrapper(ctx: Ctx, rule="WRAP"):
    """enable_scalar_args wraps interface_distance / interface_position / interface_curvature of every perturbed class: for
    array arguments it must hand the arguments on unchanged (after conversion to arrays) and return the result unchanged;
    for scalars it adds one axis and strips it again."""
    m = ctx.model
    q = "droplets.tools.misc.enable_scalar_args"
    if not m.has_func(q):
        ctx.undecided(rule, q, None, "decorator not found")
        return 0
    outer = m.func(q)
    inner = [f for f in m.all_functions() if f.parent is outer]
    if len(inner) != 1:
        ctx.undecided(rule, q, outer, "wrapper function not found")
        return 0
    fi = inner[0]
    fv = view(m, fi)
    meth = outer.params[0]
    va = fi.node.args.vararg.arg if fi.node.args.vararg else None
    bad, n_ok = None, 0

    def arg_list_ok(e, depth=0):
        """list of the converted arguments, possibly with one added axis: only number_array / [None] applied per element"""
        if isinstance(e, ast.Name) and e.id == va:
            return True
        if depth < 4 and ((isinstance(e, ast.List) and not e.elts) or (isinstance(e, ast.Call) and isinstance(e.func, ast.Name) and e.func.id == "__modified_in_place__")):
            # the path value of a list that a loop over the arguments fills: the loop is the comprehension
            from ..astutil import loop_as_comprehension

            accs = [s_.targets[0].id for s_ in fv.statements() if isinstance(s_, ast.Assign) and len(s_.targets) == 1 and isinstance(s_.targets[0], ast.Name)
                    and isinstance(s_.value, ast.List) and not s_.value.elts]
            comps_ = [c_ for a_ in accs for lp_ in fv.statements() if isinstance(lp_, ast.For) for c_ in [loop_as_comprehension(lp_, a_)] if c_ is not None]
            if len(comps_) == 1:
                return arg_list_ok(comps_[0], depth + 1)
            return None
        if isinstance(e, ast.Name) and depth < 4:
            # a list filled by a loop over the arguments (`arrays = []; for a in args: arrays.append(number_array(a))`) is the comprehension
            from ..astutil import loop_as_comprehension

            inits = [s_ for s_ in fv.statements() if isinstance(s_, ast.Assign) and len(s_.targets) == 1 and isinstance(s_.targets[0], ast.Name) and s_.targets[0].id == e.id]
            if len(inits) == 1 and isinstance(inits[0].value, ast.List) and not inits[0].value.elts:
                comps_ = [loop_as_comprehension(lp_, e.id) for lp_ in fv.statements() if isinstance(lp_, ast.For)]
                comps_ = [c_ for c_ in comps_ if c_ is not None]
                if len(comps_) == 1:
                    return arg_list_ok(comps_[0], depth + 1)
            elif len(inits) == 1 and isinstance(inits[0].value, (ast.ListComp, ast.GeneratorExp)):
                return arg_list_ok(inits[0].value, depth + 1)
        if isinstance(e, (ast.ListComp, ast.GeneratorExp)) and len(e.generators) == 1 and not e.generators[0].ifs and isinstance(e.generators[0].target, ast.Name):
            g = e.generators[0]
            v = g.target.id
            elt = e.elt
            if isinstance(elt, ast.Subscript) and isinstance(elt.value, ast.Name) and elt.value.id == v and U(elt.slice) in ("None", "np.newaxis"):
                return arg_list_ok(g.iter, depth + 1)
            if isinstance(elt, ast.Call) and (dotted(elt.func) or "").split(".")[-1] in ("number_array", "asarray", "asanyarray", "array") and elt.args \
                    and isinstance(elt.args[0], ast.Name) and elt.args[0].id == v:
                return arg_list_ok(g.iter, depth + 1)
            if isinstance(elt, ast.Name) and elt.id == v:
                return arg_list_ok(g.iter, depth + 1)
            return False
        return None

    for r in fv.return_nodes():
        if r.stmt.value is None:
            continue
        for _dec, v in value_cases(fv, r.stmt, r.stmt.value):
            vtxt = U(v)
            core = v
            if isinstance(core, ast.Subscript) and U(core.slice) == "0":
                core = core.value
            if not (isinstance(core, ast.Call) and isinstance(core.func, ast.Name) and core.func.id == meth):
                # the method's result is post-processed (reshape, astype, …) or something else is returned
                if any(isinstance(c, ast.Call) and isinstance(c.func, ast.Name) and c.func.id == meth for c in ast.walk(v)):
                    bad = bad or (r.stmt, f"the method's result is post-processed: `{vtxt[:80]}`")
                else:
                    ctx.undecided(rule, fi.qualname, (fi, r.stmt), f"return value `{vtxt[:60]}` not understood")
                    return 0
                continue
            star = [a for a in core.args if isinstance(a, ast.Starred)]
            if len(core.args) != 2 or len(star) != 1 or U(core.args[0]) != fi.params[0]:
                ctx.undecided(rule, fi.qualname, (fi, r.stmt), "call of the wrapped method not understood")
                return 0
            # keyword arguments the wrapper accepts reach the method on every path (a scalar path that forgets them evaluates the
            # shape for φ = 0 whatever azimuth was given by keyword)
            kwname = fi.node.args.kwarg.arg if fi.node.args.kwarg else None
            if kwname is not None and not any(k.arg is None for k in core.keywords):
                bad = bad or (r.stmt, f"the wrapper accepts **{kwname} but `{vtxt[:60]}` does not hand them to the method")
            ok = arg_list_ok(star[0].value)
            if ok is None:
                ctx.undecided(rule, fi.qualname, (fi, r.stmt), "argument list not understood")
                return 0
            if not ok:
                bad = bad or (r.stmt, f"the arguments are modified before the call: `{U(star[0].value)[:80]}`")
            else:
                n_ok += 1
    ctx.decide(bad is None and n_ok >= 2, rule, fi.qualname, (fi, bad[0]) if bad else fi, "arguments pass through unchanged, the result is returned as is (scalars: one axis added and stripped)",
               (bad[1] if bad else "fewer than two pass-through returns") + " — for n-dimensional or non-contiguous angle arrays (as the renderer passes them) each returned value no longer belongs to the "
               "direction at its index, so interface distance, position and curvature disagree")
    return 1


# ---------------------------------------------------------------------------------------------------- SHAPE:matmul
def check_elementwise_shape_methods(ctx: Ctx, rule="SHAPE"):
    """methods under enable_scalar_args get the angle arrays of a whole grid (any number of axes): a matrix product contracts
    the last axis of its left operand with the second-to-last of its right operand, which is an angle axis for n-d angles"""
    m = ctx.model
    n = 0
    for fi in m.all_functions():
        if fi.module.name != DROP or not any(d.endswith("enable_scalar_args") for d in fi.decorators):
            continue
        bad = None
        for x in ast.walk(fi.node):
            if isinstance(x, ast.BinOp) and isinstance(x.op, ast.MatMult):
                bad = bad or x
            elif isinstance(x, ast.Call) and (dotted(x.func) or "") in ("np.matmul", "np.dot", "numpy.matmul", "numpy.dot") and len(x.args) == 2:
                bad = bad or x
        n += 1
        ctx.decide(bad is None, rule, fi.qualname + ":elementwise", (fi, bad) if bad is not None else fi, "no matrix product over angle arrays",
                   f"`{U(bad)[:70] if bad is not None else ''}` is a matrix product: for the two-dimensional angle arrays of a cylindrical or Cartesian grid numpy treats the operand as a stack of "
                   "matrices and raises ValueError (or contracts an angle axis), so rendering and refinement of such droplets abort")
    return n


# ------------------------------------------------------------------------------------------------ REJECT:ctor-dtype
def check_ctor_dtype_precedence(ctx: Ctx, rule="REJECT"):
    m = ctx.model
    q = f"{EM}.Emulsion.__init__"
    fi = m.func(q)
    fv = view(m, fi)
    if "dtype" not in fi.all_params:
        ctx.undecided(rule, q + ":ctor-dtype", fi, "no dtype parameter")
        return 0
    adds = [s for s in fv.statements() for c in ast.walk(s) if isinstance(c, ast.Call) and isinstance(c.func, ast.Attribute) and c.func.attr in ("extend", "append")
            and U(c.func.value) in ("self", "super()")]
    stores = [s for s in fv.statements() if isinstance(s, (ast.Assign, ast.AnnAssign)) and U(s.targets[0] if isinstance(s, ast.Assign) else s.target) == "self.dtype"
              and getattr(s, "value", None) is not None and any(n_ == "dtype" or n_.startswith("dtype_") for n_ in names_in(fv.expand(s.value, s, allow_mutated=True)))]
    if not adds or not stores:
        ctx.undecided(rule, q + ":ctor-dtype", fi, "stores of self.dtype / member insertion not found")
        return 0
    from .refine import _reaches

    late = [s for s in stores if any(_reaches(fv, a, s) and not _reaches(fv, s, a) for a in adds)]
    ctx.decide(not late, rule, q + ":ctor-dtype", (fi, late[0]) if late else fi, "an explicitly given dtype is stored before the members are added",
               f"`{U(late[0])[:70] if late else ''}` applies the dtype argument only after the members were added: with force_consistency the members are compared with the first "
               "member's layout instead of the requested one, so droplets of the wrong dimension or layout are accepted")
    return 1


# ------------------------------------------------------------------------------------------------------- NONEARITH
def check_none_arithmetic(ctx: Ctx, quals, rule="PARMAP"):
    """`max_workers = None if num_processes == 'auto' else num_processes`: the documented setting 'auto' makes the value None;
    arithmetic on it raises TypeError only for that setting"""
    m = ctx.model
    n = 0
    for q in quals:
        if not m.has_func(q):
            continue
        fi = m.func(q)
        maybe_none = set()
        for s in ast.walk(fi.node):
            if isinstance(s, ast.Assign) and len(s.targets) == 1 and isinstance(s.targets[0], ast.Name):
                v = s.value
                if isinstance(v, ast.IfExp) and any(isinstance(x, ast.Constant) and x.value is None for x in (v.body, v.orelse)):
                    maybe_none.add(s.targets[0].id)
                elif isinstance(v, ast.Constant) and v.value is None:
                    maybe_none.add(s.targets[0].id)
        if not maybe_none:
            continue
        fv = view(m, fi)
        from ..astutil import stmt_index

        si = stmt_index(fv)
        bad = None
        for s in fv.statements():
            for x in ast.walk(s):
                if isinstance(x, ast.BinOp) and isinstance(x.op, (ast.Add, ast.Sub, ast.Mult, ast.Div, ast.FloorDiv, ast.Mod, ast.Pow)):
                    hit = (names_in(x.left) | names_in(x.right)) & maybe_none
                    # a direct operand (not inside a call that may handle None)
                    direct = {o.id for o in (x.left, x.right) if isinstance(o, ast.Name)} & maybe_none
                    if direct:
                        guards = " ".join(U(g[0]) + ("" if g[1] else "!") for g in si.guards(s)) if hasattr(si, "guards") else ""
                        if not any(f"{nm} is not None" in guards or f"{nm} is None!" in guards for nm in direct):
                            bad = bad or (s, x, sorted(direct)[0])
        n += 1
        ctx.decide(bad is None, rule, f"{q}:none-arithmetic", (fi, bad[0]) if bad else fi, "values that may be None are only passed on",
                   f"`{U(bad[1])[:60] if bad else ''}` computes with `{bad[2] if bad else ''}`, which is None for the documented setting num_processes='auto': TypeError for that setting only")
    return n


# ----------------------------------------------------------------------------------------------------------- CACHE
_IMMUTABLE_CALLS = ("float", "int", "bool", "str", "tuple", "frozenset", "len")


def check_no_shared_cache(ctx: Ctx, modules=(IMG, EM, DROP, TR, "droplets.tools.spherical", "droplets.tools.misc"), rule="STATELESS"):
    """a memoised function returns the *same* object on every hit: when that object is an array/list the caller can modify,
    later calls see the modification; and whatever the key does not contain is ignored"""
    m = ctx.model
    bad = []
    n = 0
    for fi in m.all_functions():
        if fi.module.name not in modules:
            continue
        n += 1
        decs = [d for d in fi.decorators if d.split(".")[-1] in ("lru_cache", "cache", "cached_property") or d.split("(")[0].split(".")[-1] in ("lru_cache", "cache")]
        if not decs:
            continue
        rets = [r.value for r in ast.walk(fi.node) if isinstance(r, ast.Return) and r.value is not None]
        immutable = rets and all(isinstance(v, ast.Constant) or (isinstance(v, ast.Call) and (dotted(v.func) or "") in _IMMUTABLE_CALLS) for v in rets)
        if not immutable:
            bad.append(fi)
    ctx.decide(not bad, rule, "package:memoised-helpers", bad[0] if bad else None, "no memoised function hands out a shared mutable result",
               f"{bad[0].qualname if bad else ''} is memoised (functools cache) and returns an object the caller may modify: every later call with the same key gets the modified object, "
               "so the result of an analysis depends on what was done with earlier results in the same process")
    return n


# --------------------------------------------------------------------------------------------------------- INVPERM
def _invperm_sites(fnode):
    """[(subscript node, order name)] where an array that is already in sorted order (computed from X[order]) is indexed with
    `order` again: that *gathers* with the sort permutation where the inverse permutation (out[order] = v, or
    v[np.argsort(order)]) is needed to get back to the original order"""
    orders = set()
    for s in ast.walk(fnode):
        if isinstance(s, ast.Assign) and len(s.targets) == 1 and isinstance(s.targets[0], ast.Name) and isinstance(s.value, ast.Call) \
                and (dotted(s.value.func) or "").split(".")[-1] in ("argsort", "lexsort"):
            orders.add(s.targets[0].id)
    if not orders:
        return []

    def uses_order(sl, o):
        return any(isinstance(x, ast.Name) and x.id == o for x in ast.walk(sl))

    out = []
    for o in orders:
        tainted = set()
        for _ in range(6):
            for s in ast.walk(fnode):
                if isinstance(s, ast.Assign) and len(s.targets) == 1 and isinstance(s.targets[0], ast.Name) and s.targets[0].id not in tainted and s.targets[0].id != o:
                    v = s.value
                    srt = any(isinstance(x, ast.Subscript) and uses_order(x.slice, o) and not (names_in(x.value) & tainted) for x in ast.walk(v))
                    if srt or (names_in(v) & tainted):
                        # an inverse mapping (scatter) is a subscript *store*, not an assignment to a plain name: everything here stays sorted
                        tainted.add(s.targets[0].id)
        for x in ast.walk(fnode):
            if isinstance(x, ast.Subscript) and isinstance(x.ctx, ast.Load) and uses_order(x.slice, o) and (names_in(x.value) & tainted):
                # order[...] itself (building partner indices) is not an array of values in sorted order
                if isinstance(x.value, ast.Name) and x.value.id == o:
                    continue
                out.append((x, o))
    return out


def check_inverse_permutation(ctx: Ctx, modules=(EM, TR, IMG), rule="INVPERM"):
    fx = ast.parse("def f(p):\n    order = np.argsort(p)\n    gaps = np.diff(p[order])\n    near = np.r_[gaps, np.inf]\n    bad = near[order]\n"
                   "    good = np.empty_like(near)\n    good[order] = near\n    return bad, good\n").body[0]
    if len(_invperm_sites(fx)) != 1:
        from ..model import AnalysisError

        raise AnalysisError("INVPERM fixture was not flagged exactly once — rule is blind", rule)
    m = ctx.model
    bad = []
    n = 0
    for fi in m.all_functions():
        if fi.module.name in modules and fi.parent is None:
            n += 1
            for x, o in _invperm_sites(fi.node):
                bad.append((fi, x, o))
    ctx.decide(not bad, rule, "package:sorted-order", (bad[0][0], bad[0][1]) if bad else None, "no array in sorted order is indexed with the sort permutation again",
               f"`{U(bad[0][1])[:70] if bad else ''}` indexes values that are already in sorted order with the sort permutation `{bad[0][2] if bad else ''}`: that applies the permutation twice "
               "instead of inverting it, so each value lands at another droplet's index (correct only when the permutation is its own inverse, e.g. two droplets or reversed input)")
    return n


# ------------------------------------------------------------------------------------------ round 9 (small changes)
def check_axis_loop_guards(ctx: Ctx, rule="MERGE"):
    """every periodic axis is examined for clusters to merge: inside the loop over the periodic axes no condition that does not
    depend on the axis may skip the work of an iteration (a test of the faces of one fixed axis skips the other axes)"""
    m = ctx.model
    q = f"{IMG}._locate_droplets_in_mask_cartesian"
    fi = m.func(q)
    fv = view(m, fi)
    loops = [s for s in fv.statements() if isinstance(s, ast.For) and "periodic" in U(fv.expand(s.iter, s, allow_mutated=True)) and isinstance(s.target, ast.Name)]
    if not loops:
        ctx.undecided(rule, q + ":axis-guards", fi, "loop over the periodic axes not found")
        return 0
    bad = None
    for lp in loops:
        axv = lp.target.id
        # names that vary with the axis: the loop variable and everything assigned from it inside the loop
        variant = {axv}
        for _ in range(4):
            for s in ast.walk(lp):
                if isinstance(s, ast.Assign) and names_in(s.value) & variant:
                    for t in s.targets:
                        variant |= {n.id for n in ast.walk(t) if isinstance(n, ast.Name)}
                elif isinstance(s, ast.For) and names_in(s.iter) & variant:
                    variant |= {n.id for n in ast.walk(s.target) if isinstance(n, ast.Name)}
        for s in lp.body:
            if isinstance(s, ast.If) and not (names_in(s.test) & variant):
                inner = [x for b in (s.body, s.orelse) for y in b for x in ast.walk(y)]
                if any(isinstance(x, (ast.For, ast.While, ast.Continue, ast.Break)) for x in inner):
                    bad = bad or s
    ctx.decide(bad is None, rule, q + ":axis-guards", (fi, bad) if bad is not None else fi, "no axis-independent condition skips a periodic axis",
               f"`if {U(bad.test)[:70] if bad is not None else ''}` decides inside the loop over the periodic axes whether an axis is examined at all, but does not depend on the axis: clusters cut by "
               "the boundary of another axis are not merged when the condition fails (the two parts stay separate droplets; the duplicate filter then drops one of them)")
    return 1


def check_fixed_levels(ctx: Ctx, rule="LEVELS"):
    """with adjust_values=False the intensity levels are not fit parameters: the branch that appends them to the parameter vector
    must be unreachable then"""
    from ..astutil import truth_under

    m = ctx.model
    q = f"{IMG}.refine_droplet"
    fi = m.func(q)
    fv = view(m, fi)
    tests = [s for s in fv.statements() if isinstance(s, ast.If) and "adjust_values" in names_in(fv.expand(s.test, s, allow_mutated=True))]
    if not tests:
        ctx.undecided(rule, q + ":fixed-levels", fi, "no branch on adjust_values")
        return 0
    bad = None
    for s in tests:
        t = fv.expand(s.test, s, allow_mutated=True)
        v = truth_under(t, [("adjust_values", False)])
        # the body of the branch packs extra slots into the start vector (np.r_[..., vmin, vrng]) — the fitting branch
        fits = any(isinstance(x, ast.Subscript) and U(x.value) == "np.r_" for y in s.body for x in ast.walk(y))
        if fits and v is not False:
            bad = bad or s
    ctx.decide(bad is None, rule, q + ":fixed-levels", (fi, bad) if bad is not None else fi, "the intensity levels are fitted only when adjust_values is set",
               f"`if {U(bad.test)[:60] if bad is not None else ''}` can take the level-fitting branch although adjust_values is False: the levels the caller fixed are fitted as free parameters, "
               "so the result is not the minimiser of the deviation from the image at the given levels (it can be worse than the candidate)")
    return 1


def check_setter_total(ctx: Ctx, qual, field, rule="WIRING"):
    """a property setter stores the new value on every path: no early return may skip the store"""
    m = ctx.model
    fi = m.func(qual)
    fv = view(m, fi)
    stores = [s for s in fv.statements() if isinstance(s, (ast.Assign, ast.AugAssign)) and any(f"self.{field}" == U(t) or U(t).startswith(f"self.data['{field}']") or U(t).startswith(f'self.data["{field}"]')
                                                                                            for t in (s.targets if isinstance(s, ast.Assign) else [s.target]))]
    if not stores:
        ctx.undecided(rule, qual + ":total", fi, f"no store of {field}")
        return 0
    # the value 0 is in the domain (a vanished droplet: the constructor and from_volume accept it): a validity test in the setter
    # may reject negative values only — evaluated for the concrete value 0
    from .collections import _eval_radius_filter
    from ..astutil import stmt_index

    vparam = fi.params[1] if len(fi.params) > 1 else None
    si_ = stmt_index(fv)
    for r_ in [x for x in fv.statements() if isinstance(x, ast.Raise)]:
        gs = si_.effective_guards(r_)
        if not gs or vparam is None:
            continue
        vals = [_eval_radius_filter(t, 0.0, {vparam: 0.0}) for t, _p in gs]
        if all(v is not None for v in vals) and all(bool(v) == p for v, (_t, p) in zip(vals, gs)):
            ctx.violate(rule, qual + ":zero", (fi, r_), f"the setter raises for {vparam} = 0 (`{U(gs[-1][0])[:50]}`): a vanished droplet (volume 0, radius 0) is valid everywhere else "
                        "(constructor, from_volume), so setting the volume 0 and reading it back fails instead of returning 0")
            break
    rets = [n.stmt for n in fv.return_nodes() if n.stmt is not None]
    early = [r for r in rets if isinstance(r, ast.Return) and not any(fv.dominates(s, r) for s in stores)]
    ctx.decide(not early, rule, qual + ":total", (fi, early[0]) if early else fi, f"every path through the setter stores {field}",
               "the setter can return without storing the new value (an 'unchanged' shortcut with a tolerance drops small changes): reading the quantity back does not return the value that was set")
    return 1


def check_text_file_modes(ctx: Ctx, quals, rule="IOAGREE"):
    """result files are written from scratch: opening in append mode concatenates a second result to the first"""
    m = ctx.model
    n = 0
    for q in quals:
        if not m.has_func(q):
            continue
        fi = m.func(q)
        for c in ast.walk(fi.node):
            if isinstance(c, ast.Call) and ((isinstance(c.func, ast.Attribute) and c.func.attr == "open") or (isinstance(c.func, ast.Name) and c.func.id == "open")):
                mode = kwarg(c, "mode")
                pos = c.args[1:] if isinstance(c.func, ast.Name) else c.args
                if mode is None and pos:
                    mode = pos[0]
                if isinstance(mode, ast.Constant) and isinstance(mode.value, str):
                    n += 1
                    okm = "a" not in mode.value and "+" not in mode.value
                    ctx.decide(okm or "r" in mode.value, rule, f"{q}:mode", (fi, c), f"file opened with mode {mode.value!r}",
                               f"the result file is opened with mode {mode.value!r}: when the file exists already the new result is appended to the old one and the file no longer reads back as the recorded data")
    return n


def check_serial_test(ctx: Ctx, quals, rule="PARMAP"):
    """num_processes may be the string 'auto': the serial branch is chosen by an equality test, an order comparison raises"""
    m = ctx.model
    n = 0
    for q in quals:
        if not m.has_func(q):
            continue
        fi = m.func(q)
        if "num_processes" not in fi.all_params:
            continue
        bad = None
        for c in ast.walk(fi.node):
            if isinstance(c, ast.Compare) and "num_processes" in names_in(c) and any(isinstance(o, (ast.Lt, ast.LtE, ast.Gt, ast.GtE)) for o in c.ops):
                bad = bad or c
        n += 1
        ctx.decide(bad is None, rule, f"{q}:serial-test", (fi, bad) if bad is not None else fi, "the process count is only tested for equality",
                   f"`{U(bad) if bad is not None else ''}` orders num_processes, which may be the documented string 'auto': TypeError for that setting only, so 'auto' no longer gives the result of the serial run")
    return n


def check_callee_once(ctx: Ctx, qual, callee_suffix, rule="PARMAP"):
    """the serial arm applies the per-item function exactly once per item (a second call re-fits an object the first call has
    already modified in place, the parallel arm fits copies once)"""
    m = ctx.model
    fi = m.func(qual)
    worst = None
    n_comp = 0
    # the per-item function may be applied through a functools.partial bound to a local name
    names = {callee_suffix}
    for s_ in ast.walk(fi.node):
        if isinstance(s_, (ast.Assign, ast.AnnAssign)) and getattr(s_, "value", None) is not None and isinstance(s_.value, ast.Call) and (dotted(s_.value.func) or "").split(".")[-1] == "partial" \
                and s_.value.args and (dotted(s_.value.args[0]) or "").split(".")[-1] == callee_suffix:
            t_ = s_.targets[0] if isinstance(s_, ast.Assign) else s_.target
            if isinstance(t_, ast.Name):
                names.add(t_.id)
    callee_suffix_names = names
    for comp in ast.walk(fi.node):
        if isinstance(comp, (ast.ListComp, ast.GeneratorExp)):
            calls = [c for c in ast.walk(comp) if isinstance(c, ast.Call) and (dotted(c.func) or "").split(".")[-1] in callee_suffix_names]
            if calls:
                n_comp += 1
                if len(calls) > 1:
                    worst = worst or calls[1]
    for lp in ast.walk(fi.node):
        if isinstance(lp, ast.For):
            calls = [c for s in lp.body for c in ast.walk(s) if isinstance(c, ast.Call) and (dotted(c.func) or "").split(".")[-1] in callee_suffix_names]
            if calls:
                n_comp += 1
                if len(calls) > 1:
                    worst = worst or calls[1]
    if not n_comp:
        return 0
    ctx.decide(worst is None, rule, f"{qual}:once", (fi, worst) if worst is not None else fi, f"{callee_suffix} is applied once per item",
               f"{callee_suffix} is applied twice to the same item in the serial arm: candidates that are refined in place are fitted a second time starting from the first result, the parallel arm "
               "fits each (pickled) candidate once — the two settings return different droplets")
    return 1


def check_kwargs_reach_call(ctx: Ctx, qual, callee_suffix, rule="FORWARD"):
    """`f(x, **kwargs)` receives the function's own keyword arguments: kwargs is not rebound before the call"""
    m = ctx.model
    fi = m.func(qual)
    kw = fi.kwarg
    if kw is None:
        ctx.undecided(rule, f"{qual}:{callee_suffix}:kwargs", fi, "no **kwargs parameter")
        return 0
    fv = view(m, fi)
    calls = [c for c in fv.calls() if (fv.callee(c) or dotted(c.func) or "").split(".")[-1] == callee_suffix and any(k.arg is None and isinstance(k.value, ast.Name) and k.value.id == kw for k in c.keywords)]
    if not calls:
        ctx.undecided(rule, f"{qual}:{callee_suffix}:kwargs", fi, f"no call {callee_suffix}(…, **{kw})")
        return 0
    from ..astutil import stmt_index
    from .refine import _reaches

    si = stmt_index(fv)
    bad = None
    for c in calls:
        st = si.statement(c)
        for s in fv.statements():
            if isinstance(s, ast.Assign) and any(isinstance(t, ast.Name) and t.id == kw for t in s.targets) and s is not st and _reaches(fv, s, st):
                bad = bad or s
    ctx.decide(bad is None, rule, f"{qual}:{callee_suffix}:kwargs", (fi, bad) if bad is not None else fi, f"{callee_suffix} receives the caller's keyword arguments",
               f"`{U(bad)[:50] if bad is not None else ''}` rebinds {kw} before {callee_suffix}(…, **{kw}) is called: the options of the caller (threshold, minimal_radius, …) are dropped and the defaults are used")
    return 1


def check_result_layout(ctx: Ctx, rule="CLASSSEL"):
    """the emulsion returned by locate_droplets takes its layout from the droplets it holds: a dtype handed over from the
    (spherical) candidates is stale once the droplets were converted or refined"""
    m = ctx.model
    q = f"{IMG}.locate_droplets"
    fi = m.func(q)
    fv = view(m, fi)
    bad = None
    n = 0
    for st in fv.statements():
        for c in ast.walk(st):
            if isinstance(c, ast.Call) and (dotted(c.func) or "").split(".")[-1] == "Emulsion" and c.args:
                n += 1
                d = kwarg(c, "dtype")
                # a layout taken from anything but the droplets handed over (first argument) is a second, possibly stale, source
                if d is not None and not (isinstance(d, ast.Constant) and d.value is None) and not (names_in(d) & names_in(c.args[0])):
                    bad = bad or st
    if not n:
        ctx.undecided(rule, q + ":result-layout", fi, "construction of the returned emulsion not found")
        return 0
    ctx.decide(bad is None, rule, q + ":result-layout", (fi, bad) if bad is not None else fi, "the returned emulsion derives its layout from its own droplets",
               "the returned emulsion is given the dtype of the spherical candidates: after conversion or refinement its droplets have another layout, so the emulsion's dtype and the table formed from "
               "it disagree (consistent appends of its own droplets are rejected)")
    return 1


def check_copy_filter_strict(ctx: Ctx, rule="COPYALL"):
    """the filter of Emulsion.copy as a truth table: a member is kept iff its radius exceeds min_radius (equal: dropped, below: dropped)"""
    from .collections import _eval_radius_filter
    m = ctx.model
    q = f"{EM}.Emulsion.copy"
    fi = m.func(q)
    tests = []
    for n in ast.walk(fi.node):
        if isinstance(n, ast.comprehension):
            tests += [(t, False) for t in n.ifs if "min_radius" in names_in(t)]
        elif isinstance(n, ast.If) and "min_radius" in names_in(n.test):
            tests.append((n.test, any(isinstance(x, ast.Continue) for x in ast.walk(n))))
    if not tests:
        ctx.undecided(rule, q + ":strict", fi, "no comparison with min_radius")
        return 0
    t, inverted = tests[0]
    table = {}
    for label, r in (("below", 1.0), ("equal", 2.0), ("above", 3.0)):
        v = _eval_radius_filter(t, r, {"min_radius": 2.0})
        if v is None:
            ctx.undecided(rule, q + ":strict", (fi, t), f"filter `{U(t)[:50]}` not understood")
            return 0
        table[label] = (not v) if inverted else bool(v)
    ok = table == {"below": False, "equal": False, "above": True}
    which = "equals" if table["equal"] else ("is below" if table["below"] else "exceeds")
    ctx.decide(ok, rule, q + ":strict", (fi, t), "droplets with exactly min_radius are removed (only radius > min_radius is kept)",
               f"`{U(t)}` {'keeps' if which != 'exceeds' else 'drops'} droplets whose radius {which} min_radius: copy(min_radius=0) is documented to drop vanished droplets, the copy differs from the list model [d for d in e if d.radius > min_radius]")
    return 1


# -------------------------------------------------------------------------------------------------- round 10
def check_writers_total(ctx: Ctx, quals, rule="IOAGREE"):
    """to_file replaces the target on every path: a return before the file is opened leaves an older file in place (or none),
    and what is read back is not what was 'written'"""
    m = ctx.model
    n = 0
    for q in quals:
        if not m.has_func(q):
            continue
        fi = m.func(q)
        fv = view(m, fi)
        opens = [s for s in fv.statements() for c in ast.walk(s) if isinstance(c, ast.Call) and (dotted(c.func) or "").split(".")[-1] == "File" and len(c.args) >= 2
                 and isinstance(c.args[1], ast.Constant) and c.args[1].value == "w"]
        if not opens:
            continue
        rets = [r.stmt for r in fv.return_nodes() if isinstance(r.stmt, ast.Return)]
        early = [r for r in rets if not any(fv.dominates(o, r) for o in opens)]
        n += 1
        ctx.decide(not early, rule, f"{q}:total", (fi, early[0]) if early else fi, "every path through the writer opens (truncates) the target file",
                   "the writer can return without opening the target file: an empty collection is reported as written while the file keeps its old content (or does not exist), so it reads back as "
                   "something else")
    return n


def check_nd_factory_decorators(ctx: Ctx, rule="FORMULA"):
    """the inner implementations of the dimension-generic converter factories are plain functions that numba may inline
    (register_jitable): called from Python they are evaluated by numpy for any argument type.  A jit-compiled inner function is
    typed by numba — its dimension branches must unify, integer arguments are int64 (arrays fail to type, large ints wrap)."""
    m = ctx.model
    decs = {}
    for fi in m.all_functions():
        if fi.module.name == "droplets.tools.spherical" and fi.parent is not None and fi.parent.name.endswith("_nd_compiled") and fi.parent.name.startswith("make_"):
            decs[fi.parent.name] = (fi, sorted(d.split(".")[-1] for d in fi.decorators))
    if len(decs) < 2:
        return 0
    n = 0
    for name, (fi, d) in sorted(decs.items()):
        n += 1
        ctx.decide("jit" not in d and "njit" not in d, rule, f"droplets.tools.spherical.{name}:decorator", fi, "inner implementation is register_jitable (plain numpy when called from Python)",
                   f"the inner implementation of {name} is compiled with @{'/'.join(d)}: from Python it no longer evaluates the closed form with numpy — integer arrays fail to type (the dimension "
                   "branches do not unify) and large integer radii wrap around in int64, while the sibling variants and the closed form accept them")
    return n


def check_sigma_float(ctx: Ctx, rule="PASS"):
    """the smoothing width reaches SmoothData1D as a float: it computes sigma**-2, which raises for numpy integer scalars"""
    m = ctx.model
    q = f"{IMG}.get_structure_factor"
    fi = m.func(q)
    fv = view(m, fi)
    calls = [c for c in fv.calls() if (dotted(c.func) or "").split(".")[-1] == "SmoothData1D"]
    if not calls:
        ctx.undecided(rule, q + ":sigma-float", fi, "SmoothData1D call not found")
        return 0
    bad = None
    for c in calls:
        sg = kwarg(c, "sigma") or (c.args[2] if len(c.args) > 2 else None)
        if sg is None:
            continue
        for _dec, v in value_cases(fv, c, sg):
            # the caller's own value must pass through float(); values computed here (k_max / 128) are floats already
            if isinstance(v, ast.Name) and v.id in fi.all_params:
                bad = bad or c
    ctx.decide(bad is None, rule, q + ":sigma-float", (fi, bad) if bad is not None else fi, "a width given by the caller is converted to float before it is used as kernel width",
               "the smoothing width given by the caller reaches SmoothData1D unconverted: for a numpy integer width `sigma**-2` raises ('Integers to negative integer powers are not allowed'), so the "
               "smoothed structure factor at the requested wave numbers is not returned")
    return 1


def check_single_result(ctx: Ctx, rule="VOLUME"):
    """droplet counting returns (volume per droplet)^(1/d) for every count: no second return in that branch"""
    m = ctx.model
    q = f"{IMG}.get_length_scale"
    fi = m.func(q)
    fv = view(m, fi)
    loc = [s for s in fv.statements() for c in ast.walk(s) if isinstance(c, ast.Call) and (dotted(c.func) or "").split(".")[-1] == "locate_droplets"]
    if not loc:
        ctx.undecided(rule, q + ":every-count", fi, "locate_droplets call not found")
        return 0
    from .refine import _reaches

    after = [r.stmt for r in fv.return_nodes() if isinstance(r.stmt, ast.Return) and r.stmt.value is not None and _reaches(fv, loc[0], r.stmt)]
    const = [r for r in after if isinstance(r.value, (ast.Constant, ast.Attribute)) or U(r.value) in ("math.nan", "np.nan", "float('nan')", "np.inf", "math.inf")]
    ctx.decide(not const, rule, q + ":every-count", (fi, const[0]) if const else fi, "the droplet count always enters the returned length scale",
               f"`return {U(const[0].value) if const else ''}` answers some droplet counts with a constant: a field with a single droplet has the length scale (box volume)^(1/d), a constant or NaN is "
               "not covariant with the grid")
    return 1


def check_popped_default(ctx: Ctx, qual, key, rule="NONETEST"):
    """an option documented as `None = automatic` is replaced by its default when it *is None*, not only when it is absent"""
    m = ctx.model
    fi = m.func(qual)
    fv = view(m, fi)
    pops = [s for s in fv.statements() if isinstance(s, ast.Assign) and isinstance(s.value, ast.Call) and isinstance(s.value.func, ast.Attribute) and s.value.func.attr == "pop"
            and s.value.args and isinstance(s.value.args[0], ast.Constant) and s.value.args[0].value == key]
    if not pops:
        ctx.undecided(rule, f"{qual}:{key}:none-default", fi, f"kwargs.pop({key!r}) not found")
        return 0
    s = pops[0]
    name = U(s.targets[0])
    tested = any(isinstance(c, ast.Compare) and U(c.left) == name and len(c.ops) == 1 and isinstance(c.ops[0], (ast.Is, ast.IsNot)) and isinstance(c.comparators[0], ast.Constant)
                 and c.comparators[0].value is None for c in ast.walk(fi.node))
    dflt = s.value.args[1] if len(s.value.args) > 1 else None
    none_default = dflt is None or (isinstance(dflt, ast.Constant) and dflt.value is None)
    ctx.decide(tested, rule, f"{qual}:{key}:none-default", (fi, s), f"`{name} is None` selects the automatic value",
               f"`{U(s)[:70]}` applies the automatic value only when the option is absent{'' if none_default else ' (pop default)'}: an explicit {key}=None — documented as automatic — reaches the analysis as None")
    return 1


# -------------------------------------------------------------------------------------------------- round 11
def check_no_override(ctx: Ctx, base_cls: str, member: str, rule="OVERRIDE"):
    """the rule that decides ``member`` of ``base_cls`` speaks for the whole class family only if no subclass replaces it: an
    override (other than a pure delegation to super()) is another implementation that the anchored rule never saw"""
    m = ctx.model
    base = m.cls(base_cls)
    bad = None
    n = 0
    for ci in m.subclasses(base):
        for fi in ci.methods.get(member, []):
            if fi.cls is not ci:
                continue
            n += 1
            body = [s for s in fi.node.body if not (isinstance(s, ast.Expr) and isinstance(s.value, ast.Constant))]
            deleg = len(body) == 1 and isinstance(body[0], ast.Return) and body[0].value is not None and U(body[0].value).startswith(f"super().{member}")
            if not deleg:
                bad = bad or fi
    ctx.decide(bad is None, rule, f"droplets.droplets.{base_cls}.{member}:family", bad if bad is not None else base.node,
               f"{base_cls}.{member} is the implementation every droplet class uses",
               f"{bad.qualname if bad is not None else ''} replaces {base_cls}.{member} for its class: what holds for the anchored implementation (the predicate, its metric and its strictness) "
               "does not hold for droplets of that class — e.g. two diffuse droplets are reported to overlap although their surface distance is positive")
    return 1


def check_flag_tests(ctx: Ctx, quals, rule="FLAGTEST"):
    """boolean options are used by their truth value: `flag is True` / `flag is False` is false for numpy booleans and for 1/0,
    so a caller passing `inplace=np.bool_(True)` (an element of a mask) silently gets the other branch"""
    m = ctx.model
    n = 0
    for q in quals:
        if not m.has_func(q):
            continue
        fi = m.func(q)
        flags = {p for p in fi.all_params if isinstance(fi.default_of(p), ast.Constant) and isinstance(fi.default_of(p).value, bool)}
        if not flags:
            continue
        bad = [c for c in ast.walk(fi.node) if isinstance(c, ast.Compare) and len(c.ops) == 1 and isinstance(c.ops[0], (ast.Is, ast.IsNot))
               and isinstance(c.left, ast.Name) and c.left.id in flags and isinstance(c.comparators[0], ast.Constant) and isinstance(c.comparators[0].value, bool)]
        n += 1
        ctx.decide(not bad, rule, f"{fi.qualname}:flags", (fi, bad[0]) if bad else fi, f"boolean options ({', '.join(sorted(flags))}) are used by their truth value",
                   f"`{U(bad[0]) if bad else ''}` compares a boolean option by identity: a truthy value that is not the literal (numpy.bool_ from a mask, 1) takes the other branch — "
                   "e.g. an in-place merge requested with a numpy boolean returns a new object and leaves the droplet unmodified")
    return n


def check_property_setters_kept(ctx: Ctx, root_cls="DropletBase", rule="WIRING"):
    """a subclass that re-declares a property getter creates a *new* property: unless it also re-declares the setter, assigning
    the attribute raises AttributeError for that class although the base class supports it"""
    m = ctx.model
    base = m.cls(root_cls)
    n = 0
    bad = None
    for ci in [base] + m.subclasses(base):
        for name, lst in ci.methods.items():
            own = [f for f in lst if f.cls is ci]
            kinds = {f.kind for f in own}
            if not (kinds & {"getter", "property"}) or "setter" in kinds:
                continue
            # does an ancestor provide a setter?
            anc = [c for c in m.mro(ci)[1:] if any(f.kind == "setter" for f in c.methods.get(name, []))]
            if not anc:
                continue
            n += 1
            # the ancestor's setter that only raises (documented "cannot set") is not lost
            aset = [f for f in anc[0].methods.get(name, []) if f.kind == "setter"][0]
            abody = [s for s in aset.node.body if not (isinstance(s, ast.Expr) and isinstance(s.value, ast.Constant))]
            if abody and isinstance(abody[0], ast.Raise):
                continue
            bad = bad or (own[0], anc[0])
    ctx.decide(bad is None, rule, f"droplets.droplets:{root_cls}:setters-kept", bad[0] if bad else base.node,
               "no class re-declares a property getter without the setter its base class provides",
               f"{bad[0].qualname if bad else ''} re-declares the property without a setter while {bad[1].name if bad else ''} defines one: for this class `obj.{bad[0].name if bad else ''} = value` raises "
               "AttributeError — setting the quantity and reading it back no longer works for this droplet class")
    return 1


def check_params_not_rebound(ctx: Ctx, qual, names, rule="PARMAP", what="the per-candidate refinement"):
    """a function that only distributes work hands its inputs on as they are: re-binding the image (a down-cast copy for the
    worker processes), the candidate list (a pre-filter) or the options in one arm — or before both — makes the result depend on
    the arm taken or drops candidates the caller asked to refine"""
    m = ctx.model
    if not m.has_func(qual):
        return 0
    fi = m.func(qual)
    bad = [x for x in ast.walk(fi.node) if isinstance(x, ast.Name) and x.id in names and isinstance(x.ctx, ast.Store)]
    # materialising a sequence (`candidates = list(candidates)`) keeps every item
    same = set()
    for st in ast.walk(fi.node):
        if isinstance(st, ast.Assign) and len(st.targets) == 1 and isinstance(st.targets[0], ast.Name) and isinstance(st.value, ast.Call) and U(st.value.func) in ("list", "tuple") \
                and len(st.value.args) == 1 and not st.value.keywords and U(st.value.args[0]) == st.targets[0].id:
            same.add(id(st.targets[0]))
    bad = [x for x in bad if id(x) not in same]
    ctx.decide(not bad, rule, f"{qual}:inputs-as-given", (fi, bad[0]) if bad else fi, f"{', '.join(names)} reach {what} as the caller gave them",
               f"`{bad[0].id if bad else ''}` is re-bound inside {fi.name} (line {getattr(bad[0], 'lineno', '?') if bad else ''}): the work is no longer done on the caller's "
               f"{'image' if bad and 'field' in bad[0].id else 'input'} — a copy in another precision in one arm makes serial and parallel results differ, a filtered candidate list "
               "drops droplets that the binary image contains")
    return 1


def check_locals_not_rebound_after(ctx: Ctx, qual, source_pred, rule, site_suffix, what, why):
    """locals that are bound to a value recognised by ``source_pred`` keep that value: no later statement re-binds them"""
    m = ctx.model
    if not m.has_func(qual):
        return 0
    fi = m.func(qual)
    names = {}
    for st in ast.walk(fi.node):
        if isinstance(st, ast.Assign) and len(st.targets) == 1 and isinstance(st.targets[0], ast.Name) and source_pred(st.value):
            names.setdefault(st.targets[0].id, st)
    if not names:
        ctx.undecided(rule, f"{qual}:{site_suffix}", fi, f"{what} not found")
        return 0
    bad = None
    for st in ast.walk(fi.node):
        tg = st.targets if isinstance(st, ast.Assign) else ([st.target] if isinstance(st, (ast.AugAssign, ast.AnnAssign)) else [])
        for t in tg:
            for e in (t.elts if isinstance(t, (ast.Tuple, ast.List)) else [t]):
                if isinstance(e, ast.Name) and e.id in names and st is not names[e.id] and not source_pred(getattr(st, "value", None)):
                    bad = bad or st
    ctx.decide(bad is None, rule, f"{qual}:{site_suffix}", (fi, bad) if bad is not None else fi, f"{what} stay as they were read ({', '.join(sorted(names))})",
               f"`{U(bad)[:80] if bad is not None else ''}` replaces {what}: {why}")
    return 1


def check_loop_targets_not_rebound(ctx: Ctx, qual, iter_contains, rule, site_suffix, why):
    """the variables of the loop over ``…<iter_contains>…`` are not re-bound inside the loop body"""
    m = ctx.model
    if not m.has_func(qual):
        return 0
    fi = m.func(qual)
    n = 0
    for lp in ast.walk(fi.node):
        if isinstance(lp, ast.For) and iter_contains in U(lp.iter):
            tg = {x.id for x in ast.walk(lp.target) if isinstance(x, ast.Name)}
            bad = [x for b in lp.body for x in ast.walk(b) if isinstance(x, ast.Name) and x.id in tg and isinstance(x.ctx, ast.Store)
                   and not any(isinstance(f, (ast.FunctionDef, ast.Lambda)) and any(y is x for y in ast.walk(f)) for f in ast.walk(b))]
            n += 1
            ctx.decide(not bad, rule, f"{qual}:{site_suffix}", (fi, bad[0]) if bad else (fi, lp), f"the loop over `{U(lp.iter)[:40]}` works on the items it is handed ({', '.join(sorted(tg))})",
                       f"`{bad[0].id if bad else ''}` is re-bound inside the loop (line {getattr(bad[0], 'lineno', '?') if bad else ''}): {why}")
    return n


def check_named_params_forwarded(ctx: Ctx, qual, callee_suffix, rule="FORWARD"):
    """every named parameter of ``qual`` that the callee also has is handed to it (an option that is accepted but not forwarded is
    silently ignored: the documented `method='distance'` would run the default method)"""
    from ..astutil import call_bindings

    m = ctx.model
    if not m.has_func(qual):
        return 0
    fi = m.func(qual)
    fv = view(m, fi)
    calls = [c for c in fv.calls() if (fv.callee(c) or U(c.func)).endswith(callee_suffix)]
    if not calls:
        ctx.undecided(rule, f"{qual}:forwards", fi, f"call of {callee_suffix} not found")
        return 0
    c = calls[-1]
    callee_q = fv.callee(c)
    cal = m.func(callee_q) if callee_q and m.has_func(callee_q) else None
    if cal is None:
        # a classmethod called through cls: resolve by name in the same class
        cands = [f for f in m.all_functions() if f.qualname.endswith("." + callee_suffix) and f.cls is fi.cls]
        cal = cands[0] if cands else None
    if cal is None:
        ctx.undecided(rule, f"{qual}:forwards", fi, f"{callee_suffix} not resolved")
        return 0
    bound, unresolved = call_bindings(fv, c, cal)
    shared = [p for p in fi.all_params if p in cal.all_params and p not in ("self", "cls")]
    missing = [p for p in shared if p not in bound or p not in names_in(fv.expand(bound[p], c))]
    star = any(k.arg is None for k in c.keywords)
    missing = [p for p in missing if not (star and p in unresolved)]
    ctx.decide(not missing, rule, f"{qual}:forwards", (fi, c), f"{', '.join(shared)} are handed on to {callee_suffix}",
               f"`{U(c)[:90]}` does not hand on {missing}: the option is accepted and silently ignored, so the analysis runs with the callee's default "
               "(e.g. tracking by overlap although method='distance' was requested)")
    return 1


def check_param_not_written(ctx: Ctx, qual, param, rule="EFFECT"):
    """``qual`` does not write through ``param`` (an array of the caller): neither directly nor through a name that may share its
    memory — `np.ravel(x)`, `x.ravel()`, `x.reshape(…)`, `np.asarray(x)`, `x.astype(…, copy=False)`, `x.flat`, a slice — by an
    in-place operator, an item assignment or an `out=` argument"""
    m = ctx.model
    if not m.has_func(qual):
        return 0
    fi = m.func(qual)
    VIEWS = {"ravel", "reshape", "asarray", "asanyarray", "squeeze", "view", "atleast_1d", "transpose", "astype"}
    shares = {param}
    for _ in range(3):
        for st in ast.walk(fi.node):
            if isinstance(st, ast.Assign) and len(st.targets) == 1 and isinstance(st.targets[0], ast.Name):
                v = st.value
                # peel view-producing calls
                ok = False
                while True:
                    if isinstance(v, ast.Call) and (U(v.func).split(".")[-1] in VIEWS):
                        if U(v.func).split(".")[-1] == "astype" and not any(k.arg == "copy" and isinstance(k.value, ast.Constant) and k.value.value is False for k in v.keywords):
                            break
                        v = v.func.value if isinstance(v.func, ast.Attribute) and U(v.func.value) not in ("np", "numpy") else (v.args[0] if v.args else None)
                        if v is None:
                            break
                        continue
                    if isinstance(v, ast.Subscript):
                        v = v.value
                        continue
                    if isinstance(v, ast.Attribute) and v.attr in ("flat", "T", "real"):
                        v = v.value
                        continue
                    ok = isinstance(v, ast.Name) and v.id in shares
                    break
                if ok:
                    shares.add(st.targets[0].id)
    bad = None
    for st in ast.walk(fi.node):
        if isinstance(st, ast.AugAssign):
            r = st.target
            while isinstance(r, (ast.Subscript, ast.Attribute)):
                r = r.value
            if isinstance(r, ast.Name) and r.id in shares:
                bad = bad or st
        elif isinstance(st, ast.Assign):
            for t in st.targets:
                if isinstance(t, ast.Subscript):
                    r = t
                    while isinstance(r, (ast.Subscript, ast.Attribute)):
                        r = r.value
                    if isinstance(r, ast.Name) and r.id in shares:
                        bad = bad or st
        elif isinstance(st, ast.Call):
            o = next((k.value for k in st.keywords if k.arg == "out"), None)
            if isinstance(o, ast.Name) and o.id in shares:
                bad = bad or st
    ctx.decide(bad is None, rule, f"{qual}:{param}-readonly", (fi, bad) if bad is not None else fi, f"`{param}` (the caller's array) is only read",
               f"`{U(bad)[:70] if bad is not None else ''}` writes through `{param}` or a name that shares its memory ({', '.join(sorted(shares - {param})) or param}): for contiguous input "
               "(a one-dimensional field) the caller's image is modified in place, and what is compared with the returned threshold afterwards is no longer the image that was analysed")
    return 1


def check_arrays_not_filtered(ctx: Ctx, qual, rule="TOTAL"):
    """the histogram arrays of the otsu rule keep one entry per bin: dropping bins by a mask (`counts[counts > 0]`) leaves a single
    entry for a constant image, the between-class array is empty and the arg-max raises"""
    m = ctx.model
    if not m.has_func(qual):
        return 0
    fi = m.func(qual)
    bad = None
    for st in ast.walk(fi.node):
        if isinstance(st, ast.Assign):
            vals = st.value.elts if isinstance(st.value, ast.Tuple) else [st.value]
            for v in vals:
                if isinstance(v, ast.Subscript) and isinstance(v.value, ast.Name) and not isinstance(v.slice, (ast.Slice, ast.Constant, ast.UnaryOp)):
                    sl = v.slice
                    if isinstance(sl, ast.Compare) or (isinstance(sl, ast.Name) and any(isinstance(d, ast.Assign) and len(d.targets) == 1 and isinstance(d.targets[0], ast.Name) and d.targets[0].id == sl.id
                                                                                        and isinstance(d.value, (ast.Compare, ast.UnaryOp, ast.BoolOp)) for d in ast.walk(fi.node))):
                        bad = bad or st
    ctx.decide(bad is None, rule, f"{qual}:bins-kept", (fi, bad) if bad is not None else fi, "every histogram bin keeps its entry",
               f"`{U(bad)[:70] if bad is not None else ''}` drops histogram bins by a mask: for a constant image one bin is left, the between-class variance array is empty and its arg-max raises "
               "ValueError — locating droplets in a constant image with the 'otsu' rule aborts")
    return 1
