"""FORMULA: extraction of per-dimension closed forms from the sphere conversion
functions into exact normal forms (see algebra.py)."""

from __future__ import annotations

import ast
import glob
import os
import re

from ..algebra import Converter, Expr, NotAlgebraic, PI
from ..astutil import U
from ..model import FuncInfo, Model, ModuleInfo, dotted

X = "x"  # the argument atom


def _dim_test(test, dim_names):
    """k if ``test`` is ``<dim> == k`` for a name in dim_names"""
    if isinstance(test, ast.Compare) and len(test.ops) == 1 and isinstance(test.ops[0], ast.Eq):
        a, b = test.left, test.comparators[0]
        for p, q in ((a, b), (b, a)):
            d = dotted(p)
            if d is not None and (d in dim_names or d.split(".")[-1] in dim_names) and isinstance(q, ast.Constant) and isinstance(q.value, int):
                return q.value
    return None


class Extracted:
    def __init__(self):
        self.by_dim: dict[int, list] = {}  # dim -> list[(Expr|None, node, note)]
        self.raises: set = set()
        self.problems: list = []
        self.fills: list = []  # (call, shape-ok, parameter) for constant results np.full(x.shape, c) …


def _const_fill(call: ast.Call, resolve):
    """c for np.full(shape, c) / np.broadcast_to(c, shape) / np.full_like(a, c)"""
    name = resolve(dotted(call.func)) or ""
    if name.endswith("numpy.full") and len(call.args) >= 2:
        return call.args[1]
    if name.endswith("numpy.broadcast_to") and len(call.args) >= 2:
        return call.args[0]
    if name.endswith("numpy.full_like") and len(call.args) >= 2:
        return call.args[1]
    return None


def _fill_shape_ok(call: ast.Call, resolve, par):
    """does the constant array have the shape of the argument ``par``?"""
    name = resolve(dotted(call.func)) or ""
    u = ast.unparse
    shapes = (f"{par}.shape", f"np.shape({par})", f"numpy.shape({par})")
    if name.endswith("numpy.full"):
        return u(call.args[0]) in shapes
    if name.endswith("numpy.broadcast_to"):
        return u(call.args[1]) in shapes
    if name.endswith("numpy.full_like"):
        return u(call.args[0]) == par
    return False


def _leaf_values(model: Model, mod: ModuleInfo, body, param, local_funcs, out, problems, fills=None):
    """Collect value expressions 'returned' by a block: Return statements, nested
    defs' returns (with their own first parameter) and lambda bodies."""
    resolve = lambda s: model.resolve(mod, s) if s else s

    def conv_value(v, par):
        if isinstance(v, ast.Lambda):
            lp = v.args.args[0].arg if v.args.args else None
            conv_value(v.body, lp)
            return
        if isinstance(v, ast.Call):
            c = _const_fill(v, resolve)
            if c is not None:
                if fills is not None and par:
                    fills.append((v, _fill_shape_ok(v, resolve, par), par))
                conv_value(c, par)
                return
            fn = dotted(v.func)
            if fn in local_funcs:
                return  # delegation to a sibling local function: evaluated there
        try:
            env = {par: Expr.atom(X)} if par else {}
            e = Converter(resolve_dotted=resolve, env=env, opaque_calls=False).conv(v)
            out.append((e, v, ""))
        except NotAlgebraic as exc:
            problems.append((v, f"not algebraic: {exc}"))

    def block(stmts, par):
        for s in stmts:
            if isinstance(s, ast.Return) and s.value is not None:
                conv_value(s.value, par)
            elif isinstance(s, (ast.FunctionDef,)):
                p = s.args.args[0].arg if s.args.args else None
                # numba @overload implementation: parameter is a *type*; its returns are lambdas
                block(s.body, p)
            elif isinstance(s, ast.If):
                # type dispatch (isinstance) inside a branch: both arms must agree
                block(s.body, par)
                block(s.orelse, par)
            elif isinstance(s, (ast.With, ast.Try)):
                block(getattr(s, "body", []), par)

    block(body, param)


def extract(model: Model, fi: FuncInfo) -> Extracted:
    """Per-dimension formulas of a converter ``f(x, dim)`` or factory ``make(dim)`` /
    ``make()`` returning ``f(x[, dim])``."""
    ex = Extracted()
    mod = fi.module
    node = fi.node

    def local_defs(stmts):
        names = set()
        for s in ast.walk(ast.Module(body=list(stmts), type_ignores=[])):
            if isinstance(s, ast.FunctionDef):
                names.add(s.name)
        return names

    def scan(stmts, param, dim_names):
        """Walk an if-chain on the dimension."""
        for s in stmts:
            if isinstance(s, ast.If):
                k = _dim_test(s.test, dim_names)
                if k is not None:
                    vals: list = []
                    _leaf_values(model, mod, s.body, param, local_defs(s.body), vals, ex.problems, ex.fills)
                    if vals:
                        ex.by_dim.setdefault(k, []).extend(vals)
                    elif any(isinstance(x, ast.Raise) for x in s.body):
                        ex.raises.add(k)
                    scan(s.orelse, param, dim_names)
                    continue
                # other tests (type dispatch) are handled by _leaf_values of the caller
            elif isinstance(s, ast.FunctionDef):
                # nested implementation with its own (x, dim) parameters
                ps = [a.arg for a in s.args.args]
                if ps:
                    scan(s.body, ps[0], set(ps[1:]) | dim_names)

    params = fi.params
    if fi.name.startswith("make_"):
        scan(node.body, None, set(params) | {"dim"})
    else:
        scan(node.body, params[0] if params else None, set(params[1:]) | {"dim"})
    return ex


def pde_volume_from_radius():
    """Parse py-pde's ``volume_from_radius`` from the environment the repository
    runs in. Returns (Model-less FuncInfo-like, path) or None."""
    cands = sorted(glob.glob("/venv/lib/python*/site-packages/pde/grids/spherical.py"))
    for path in cands:
        try:
            with open(path, encoding="utf-8") as fh:
                src = fh.read()
            tree = ast.parse(src)
        except (OSError, SyntaxError):
            continue
        for n in tree.body:
            if isinstance(n, ast.FunctionDef) and n.name == "volume_from_radius":
                return n, path, src
    return None


def reference(kind: str, dim: int) -> Expr | None:
    """Mathematical definitions for the d-ball, used as the absolute anchor for the
    volume (everything else is checked relationally against the volume)."""
    from fractions import Fraction

    x = Expr.atom(X)
    pi = Expr.atom(PI)
    V = {1: Expr.const(2) * x, 2: pi * x.power(Fraction(2)), 3: Expr.const(Fraction(4, 3)) * pi * x.power(Fraction(3))}
    if kind == "volume_from_radius":
        return V.get(dim)
    if kind == "surface_from_radius":
        return V[dim].derivative(X) if dim in V else None
    return None
