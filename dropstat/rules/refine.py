"""Rules over ``refine_droplet``: packed-parameter slots (PACK/AFFINE), constraint mask
(FLOW), start from the candidate, wrap after the fit, image never written, class
preserved; and LAYOUT of ``data_bounds`` against the dtype chain."""

from __future__ import annotations

import ast
from fractions import Fraction

from ..algebra import Converter, Expr, NotAlgebraic
from ..astutil import U, view, arg_or_kw, kwarg, names_in, stmt_index, compare_parts, MUTATORS
from ..cfg import walk_no_nested
from ..model import dotted, AnchorMissing

IMG = "droplets.image_analysis"
DROP = "droplets.droplets"
QUAL = f"{IMG}.refine_droplet"


def r_elements(node):
    """elements of np.r_[a, b, c] or None"""
    if isinstance(node, ast.Subscript) and (dotted(node.value) or "").endswith("r_"):
        sl = node.slice
        return list(sl.elts) if isinstance(sl, ast.Tuple) else [sl]
    return None


def simplify_index(node):
    """(a, b)[0] -> a, recursively"""

    class T(ast.NodeTransformer):
        def visit_Subscript(self, n):
            self.generic_visit(n)
            if isinstance(n.value, ast.Tuple) and isinstance(n.slice, ast.Constant) and isinstance(n.slice.value, int) and -len(n.value.elts) <= n.slice.value < len(n.value.elts):
                return n.value.elts[n.slice.value]
            return n

    return T().visit(node)


class Site:
    def __init__(self, call, fun_fi, k_x0, x0_extra, lo_extra, hi_extra):
        self.call, self.fun = call, fun_fi
        self.k = k_x0
        self.x0_extra, self.lo_extra, self.hi_extra = x0_extra, lo_extra, hi_extra


def lsq_sites(ctx):
    m = ctx.model
    fi = m.func(QUAL)
    fv = view(m, fi)
    out = []
    for c in fv.calls():
        if (fv.callee(c) or "").endswith("optimize.least_squares"):
            out.append(c)
    return fi, fv, out


def _levels_conv(ctx, fv, extra_env=None, sign=1):
    """converter for expressions in the intensity levels; `min(a, b)` / `max(a, b)` whose arguments differ by a multiple of
    (vmax − vmin) are resolved for the case vmax > vmin (sign = +1) or vmax < vmin (sign = −1)"""
    m = ctx.model
    env = {}
    env.update(extra_env or {})

    def hook(cv, call, name):
        short = (name or "").split(".")[-1]
        if short in ("min", "max", "minimum", "maximum", "fmin", "fmax") and len(call.args) == 2 and not call.keywords:
            a, b = cv.conv(call.args[0]), cv.conv(call.args[1])
            lv = linear_in_levels(a - b)
            if lv is None or lv[0] != -lv[1]:
                return None
            k = lv[0] * sign  # sign of a − b
            if k == 0:
                return a
            a_smaller = k < 0
            want_min = short in ("min", "minimum", "fmin")
            return a if (a_smaller == want_min) else b
        return None

    return Converter(resolve_dotted=lambda s: m.resolve(fv.mod, s) or s, env=env, opaque_calls=True, call_hook=hook)


def linear_in_levels(e: Expr):
    """(α_vmax, β_vmin) when e = α·vmax + β·vmin, else None"""
    a = b = Fraction(0)
    for k, c in e.terms.items():
        d = dict(k)
        if d == {"vmax": Fraction(1)}:
            a += c
        elif d == {"vmin": Fraction(1)}:
            b += c
        else:
            return None
    return a, b


def affine_kind(e: Expr):
    lv = linear_in_levels(e)
    if lv is None:
        return None
    w = lv[0] + lv[1]
    return "point" if w == 1 else ("vector" if w == 0 else f"weight {w}")


def check_pack(ctx, rules=("PACK", "AFFINE", "FEASIBLE")):
    m = ctx.model
    fi, fv, sites = lsq_sites(ctx)
    si = stmt_index(fv)
    if len(sites) < 1:
        raise AnchorMissing("refine_droplet contains no optimize.least_squares call")
    vmin_p, vmax_p = "vmin", "vmax"
    # outer vrng
    env_outer = {}
    for s in fv.statements():
        if isinstance(s, ast.Assign) and len(s.targets) == 1 and isinstance(s.targets[0], ast.Name) and s.targets[0].id == "vrng":
            try:
                env_outer["vrng"] = _levels_conv(ctx, fv).conv(s.value)
            except NotAlgebraic:
                pass
    from ..astutil import canon_tests

    def facts(node):
        out = set()
        for t, p in si.effective_guards(node):
            out.update(canon_tests(t, p))
        return out

    from ..astutil import contradicts, truth_under

    # the two modes of the fit: the branch test that mentions adjust_values holds (all its conjuncts) / adjust_values is off
    mode_adjust = {("adjust_values", True)}
    for s_ in fv.statements():
        if isinstance(s_, ast.If) and "adjust_values" in names_in(s_.test):
            ft_ = canon_tests(s_.test, True)
            if ("adjust_values", True) in ft_:
                mode_adjust |= set(ft_)
    mode_fixed = {("adjust_values", False)}
    instances = []
    for c in sites:
        g = facts(c)
        if ("adjust_values", True) in g:
            instances.append((c, "adjust", set(mode_adjust)))
        elif ("adjust_values", False) in g or any(not p_ and isinstance(t_, ast.BoolOp) and isinstance(t_.op, ast.And) and any(U(v_) == "adjust_values" for v_ in t_.values)
                                                   for t_, p_ in si.effective_guards(c)):
            # else-arm of `if adjust_values [and <the levels differ>]:` — the levels are kept fixed on this path
            instances.append((c, "fixed", set(mode_fixed)))
        else:
            # one call shared by both settings: analysed once per setting, resolving names under that assumption
            instances.append((c, "adjust", set(mode_adjust)))
            instances.append((c, "fixed", set(mode_fixed)))
    for idx, (c, branch, assume) in enumerate(instances):
        site = f"{QUAL}:least_squares[{branch}]"
        fun = c.args[0] if c.args else None
        x0 = c.args[1] if len(c.args) > 1 else kwarg(c, "x0")
        bnds = kwarg(c, "bounds") or (c.args[3] if len(c.args) > 3 else None)
        if fun is None or x0 is None or bnds is None:
            ctx.violate("PACK", site, (fi, c), "least_squares is not called with (residual function, start vector, bounds=…): the fit would be unbounded")
            continue
        x0e = fv.expand(x0, c, assume=assume)
        be = simplify_index(fv.expand(bnds, c, stop=("free", "l", "h", "data_flat"), assume=assume))
        x0_el = r_elements(x0e)
        x0_extra = x0_el[1:] if x0_el else []
        x0_base = x0_el[0] if x0_el else x0e
        if not (isinstance(be, ast.Tuple) and len(be.elts) == 2):
            ctx.undecided("PACK", site, (fi, c), f"bounds not a (lower, upper) pair: {U(be)[:60]}")
            continue
        lo_el, hi_el = r_elements(be.elts[0]), r_elements(be.elts[1])
        lo_extra, hi_extra = (lo_el[1:] if lo_el else []), (hi_el[1:] if hi_el else [])
        lo_base, hi_base = (lo_el[0] if lo_el else be.elts[0]), (hi_el[0] if hi_el else be.elts[1])
        # residual closure
        cl = [g for g in m.all_functions() if g.parent is fi and isinstance(fun, ast.Name) and g.name == fun.id]
        # choose the definition in the same branch
        closure = None
        compatible = [g for g in cl if not contradicts(si.effective_guards(g.node), assume)]
        if len(compatible) > 1:
            # several candidates: the one defined in the same arm (block) as the call
            cst = si.statement(c)
            same = [g for g in compatible if si.parent.get(id(g.node)) is not None and cst is not None and si.parent.get(id(g.node)) == si.parent.get(id(cst))]
            if len(same) == 1:
                compatible = same
        if len(compatible) == 1:
            closure = compatible[0]
        if closure is None:
            ctx.undecided("PACK", site, (fi, c), "residual function not found in the same branch")
            continue
        gv = view(m, closure)
        par = closure.params[0]
        # k used in the closure
        k_cl, slot_names = 0, []
        store_ok = False
        for n_ in ast.walk(closure.node):
            if isinstance(n_, ast.Subscript) and U(n_.value) == par:
                sl = n_.slice
                neg = lambda x: x.operand.value if isinstance(x, ast.UnaryOp) and isinstance(x.op, ast.USub) and isinstance(x.operand, ast.Constant) and isinstance(x.operand.value, int) else None
                if isinstance(sl, ast.Slice):
                    if sl.lower is not None and sl.upper is None and neg(sl.lower):  # params[-k:]
                        k_cl = max(k_cl, neg(sl.lower))
                    if sl.lower is None and sl.upper is not None and neg(sl.upper):  # params[:-k]
                        k_cl = max(k_cl, neg(sl.upper))
                elif neg(sl):  # params[-j]
                    k_cl = max(k_cl, neg(sl))
        slot_names = [f"{par}[-{j}]" for j in range(k_cl, 0, -1)]
        for s in gv.statements():
            if isinstance(s, ast.Assign) and U(s.targets[0]) == "data_flat[free]":
                vtxt = U(gv.expand(s.value, s)).replace(" ", "")
                if vtxt == (f"{par}[:-{k_cl}]" if k_cl else par):
                    store_ok = True
        # read-back
        k_rb = None
        rb_cands = [s for s in fv.statements() if isinstance(s, ast.Assign) and U(s.targets[0]) == "data_flat[free]" and "result" in names_in(s.value) and not contradicts(si.effective_guards(s), assume)]
        if len(rb_cands) > 1:
            cst_ = si.statement(c)
            same_ = [s for s in rb_cands if cst_ is not None and si.parent.get(id(s)) == si.parent.get(id(cst_))]
            if same_:
                rb_cands = same_
        for s in rb_cands:
            if True:
                v = s.value
                if isinstance(v, ast.Subscript) and isinstance(v.slice, ast.Slice) and v.slice.upper is not None and isinstance(v.slice.upper, ast.UnaryOp):
                    k_rb = v.slice.upper.operand.value
                elif U(v) == "result.x":
                    k_rb = 0
        # the residual function stores every trial point into data_flat[free]; only the unconditional read-back of result.x
        # afterwards restores the optimiser's answer (for a run that stops without converging, result.x is still the best
        # point found, whereas the last trial point may be a rejected step that fits worse than the candidate)
        if "PACK" in rules and rb_cands:
            from ..astutil import canon_guards as _cg

            g_call = _cg(si, c)
            cond_rb = [s_ for s_ in rb_cands if _cg(si, s_) - g_call - set(assume)]
            extra = sorted(t_ for s_ in cond_rb for t_, _p in (_cg(si, s_) - g_call) if "adjust_values" not in t_ and "vrng" not in t_)
            ctx.decide(not extra, "PACK", site + ":read-back", (fi, (cond_rb or rb_cands)[0]),
                       "the optimiser's result is written back unconditionally after the fit",
                       f"the fitted parameters are copied back only under {extra}: otherwise the droplet keeps the *last trial point* the residual function stored in data_flat "
                       "(possibly a rejected step), which can fit worse than the candidate")
        ks = {"x0": len(x0_extra), "lower": len(lo_extra), "upper": len(hi_extra), "residual": k_cl, "read-back": k_rb}
        if "PACK" in rules:
            ctx.decide(len(set(ks.values())) == 1 and store_ok, "PACK", site + ":slots", (fi, c),
                       f"start vector, bounds, residual function and read-back agree on {len(x0_extra)} extra slot(s); droplet parameters go through data_flat[free]",
                       f"packed-parameter layouts disagree: extra slots {ks}" + ("" if store_ok else "; the residual does not store the droplet parameters into data_flat[free]"))
            bases = [U(x0_base), U(lo_base), U(hi_base)]
            okb = bases[0] == "data_flat[free]" and bases[1].endswith("[free]") and bases[2].endswith("[free]") and bases[1] != bases[2]
            ctx.decide(okb, "PACK", site + ":base", (fi, c), "droplet part of start/lower/upper all restricted to the free parameters",
                       f"droplet part of (start, lower, upper) is ({', '.join(bases)}); all three must be indexed by `free`")
        if not x0_extra:
            # the fixed branch: residual uses outer vmin/vrng
            _check_model(ctx, closure, site, env_outer, None, rules)
            continue
        # ---- AFFINE typing of the extra slots
        cv = _levels_conv(ctx, fv, env_outer)
        try:
            X0 = [cv.conv(e) for e in x0_extra]
            LO = [cv.conv(e) for e in lo_extra]
            HI = [cv.conv(e) for e in hi_extra]
        except NotAlgebraic as exc:
            ctx.undecided("AFFINE", site, (fi, c), str(exc))
            continue
        roles = _check_model(ctx, closure, site, env_outer, slot_names, rules)
        if roles and "AFFINE" in rules and len(X0) == len(LO) == len(HI) == len(roles):
            for i, role in enumerate(roles):
                kinds = {"start": affine_kind(X0[i]), "lower": affine_kind(LO[i]), "upper": affine_kind(HI[i])}
                # a literal zero is a valid bound for a vector (scale) slot
                okk = all(k == role or (role == "vector" and e.is_zero()) for k, e in zip(kinds.values(), (X0[i], LO[i], HI[i])))
                ctx.decide(okk, "AFFINE", f"{site}:slot{i}", (fi, c),
                           f"slot {i} is an intensity {role} in the residual, the start vector and both bounds",
                           f"slot {i} is used by the residual as an intensity {role} ({'offset' if role == 'point' else 'range multiplying the unit profile'}) "
                           f"but start/lower/upper are {kinds} (start = {X0[i].show()}): under an affine change of the image intensities the start vector does not transform like the model parameter")
        if "FEASIBLE" in rules and len(X0) == len(LO) == len(HI):
            for i in range(len(X0)):
                lo_gap, hi_gap = linear_in_levels(X0[i] - LO[i]), linear_in_levels(HI[i] - X0[i])

                def nonneg_multiple(g, sgn=1):
                    return g is not None and g[0] == -g[1] and g[0] * sgn >= 0

                ok = nonneg_multiple(lo_gap) and nonneg_multiple(hi_gap)
                ctx.decide(ok, "FEASIBLE", f"{site}:slot{i}", (fi, c),
                           f"lower ≤ start ≤ upper for every vmax ≥ vmin (gaps {(X0[i] - LO[i]).show()}, {(HI[i] - X0[i]).show()})",
                           f"start value {X0[i].show()} is not inside [{LO[i].show()}, {HI[i].show()}] for all intensity levels with vmax ≥ vmin "
                           f"(e.g. levels (10, 11)): least_squares raises `Initial guess is outside of provided bounds`")
            # the levels may also be inverted (vmin > vmax: dark droplets, or an automatic vmin above the default vmax = 1):
            # nothing orders them before the fit, so the same feasibility is owed for vmax < vmin
            cvn = _levels_conv(ctx, fv, env_outer, sign=-1)
            try:
                X0n = [cvn.conv(e) for e in x0_extra]
                LOn = [cvn.conv(e) for e in lo_extra]
                HIn = [cvn.conv(e) for e in hi_extra]
            except NotAlgebraic:
                X0n = LOn = HIn = None
            if X0n is not None and len(X0n) == len(LOn) == len(HIn):
                for i in range(len(X0n)):
                    lo_gap, hi_gap = linear_in_levels(X0n[i] - LOn[i]), linear_in_levels(HIn[i] - X0n[i])
                    ok = nonneg_multiple(lo_gap, -1) and nonneg_multiple(hi_gap, -1)
                    ctx.decide(ok, "FEASIBLE", f"{site}:slot{i}[vmax<vmin]", (fi, c),
                               f"lower ≤ start ≤ upper also for inverted levels vmax < vmin (gaps {(X0n[i] - LOn[i]).show()}, {(HIn[i] - X0n[i]).show()})",
                               f"for inverted levels (vmax < vmin) the interval of slot {i} is [{LOn[i].show()}, {HIn[i].show()}] with start {X0n[i].show()}: lower > upper, so least_squares raises "
                               "`Each lower bound must be strictly less than each upper bound` — e.g. refine_args={'adjust_values': True, 'vmin': None} on an image with values above the default vmax = 1, "
                               "or explicit levels of a dark droplet (vmin=1, vmax=0)")
            if "STRICT" in rules:
                _strict_bounds(ctx, fi, fv, c, site, LO, HI, assume)


def _strict_bounds(ctx, fi, fv, c, site, LO, HI, assume=()):
    """least_squares needs lower < upper strictly in every slot.  An intensity slot whose interval is k·(vmax − vmin) wide
    degenerates when the fitted region is constant (vmin = vmax taken from the data), unless a guard excludes that case."""
    from ..astutil import canon_guards

    si = stmt_index(fv)
    degenerate = []
    for i in range(len(LO)):
        w = linear_in_levels(HI[i] - LO[i])
        if w is not None and w[0] == -w[1] and w[0] >= 0:  # width = k·(vmax − vmin), k ≥ 0
            degenerate.append((i, (HI[i] - LO[i]).show()))
    if not degenerate:
        return
    g = canon_guards(si, c, expand=lambda t, at: fv.expand(t, at, allow_mutated=True, stop=("vmin", "vmax")))
    # facts that define the mode in which these bounds are used (the branch test that selects the intensity fit) count as guards
    for txt, pol in assume:
        try:
            tn = fv.expand(ast.parse(txt, mode="eval").body, c, allow_mutated=True, stop=("vmin", "vmax"))
        except SyntaxError:
            continue
        from ..astutil import canon_tests

        g = set(g) | set(canon_tests(tn, pol))
    texts = {t.replace(" ", "") for t, p in g if p} | {"not:" + t.replace(" ", "") for t, p in g if not p}
    guarded = any(x in texts for x in ("0<vmax-vmin", "vmin<vmax", "not:vmax-vmin==0", "not:vmax==vmin", "not:vmin==vmax", "not:vmax<=vmin", "not:vmax-vmin<=0"))
    ctx.decide(guarded, "FEASIBLE", f"{site}:strict-bounds", (fi, c),
               "a guard excludes vmax = vmin, so every intensity slot has lower < upper",
               f"intensity slot(s) {[i for i, _ in degenerate]} have the interval width {degenerate[0][1]}, which is 0 when the fitted region is constant (vmin = vmax, e.g. a constant image with "
               "refine_args={'adjust_values': True}): least_squares raises `Each lower bound must be strictly less than each upper bound` and locate_droplets aborts on a valid field")


def _check_model(ctx, closure, site, env_outer, slot_names, rules):
    """residual = P + V·u[mask] − data; returns roles of the slots ['point','vector']"""
    m = ctx.model
    gv = view(m, closure)
    rets = [n.stmt for n in gv.return_nodes() if n.stmt.value is not None]
    if len(rets) != 1:
        ctx.undecided("MODEL", site, closure, "residual has several returns")
        return None

    def hook(cv, call, name):
        return None

    own = {n_.id for n_ in ast.walk(closure.node) if isinstance(n_, ast.Name) and isinstance(n_.ctx, ast.Store)}
    ex = gv.expand(rets[0].value, rets[0], stop=tuple(x for x in ("vmin", "vrng", "data_mask", "droplet") if x not in own))
    from ..astutil import resolve_closure_aliases

    ex = resolve_closure_aliases(m, closure, ex)
    cv = Converter(resolve_dotted=lambda s: m.resolve(gv.mod, s) or s)
    try:
        e = cv.conv(ex)
    except NotAlgebraic as exc:
        ctx.undecided("MODEL", site, (closure, rets[0]), str(exc))
        return None
    us = [a for a in e.atoms() if "_get_phase_field" in a]
    if len(us) != 1:
        ctx.violate("MODEL", site, (closure, rets[0]), f"residual {e.show()} does not compare the droplet's own rendering (_get_phase_field) with the image")
        return None
    u = Expr.atom(us[0])
    ok_u = us[0].endswith("[mask]") and "phase_field.grid" in us[0]
    names = slot_names if slot_names else ["vmin", "vrng"]
    if len(names) != 2:
        ctx.undecided("MODEL", site, (closure, rets[0]), f"{len(names)} intensity slots")
        return None
    p, v = Expr.atom(names[0]), Expr.atom(names[1])
    want = p + v * u - Expr.atom("data_mask")
    alt = p * u + v - Expr.atom("data_mask")
    if "MODEL" in rules or "PACK" in rules:
        ctx.decide(e == want and ok_u, "MODEL", site, (closure, rets[0]),
                   f"residual = {names[0]} + {names[1]}·u[mask] − image[mask] with u the droplet's unit profile on the image's grid",
                   f"residual is {e.show()}; expected {want.show()}")
    if e == want:
        return ["point", "vector"]
    if e == alt:
        return ["vector", "point"]
    return None


# ---------------------------------------------------------------------------- FLOW rules
def check_mask(ctx):
    """free[constraints] = False dominates every use of `free`; every store into the flat
    parameter vector is indexed by `free`"""
    m = ctx.model
    fi = m.func(QUAL)
    fv = view(m, fi)
    site = QUAL
    mask_store = None
    for s in fv.statements():
        if isinstance(s, ast.Assign) and isinstance(s.targets[0], ast.Subscript) and U(s.targets[0].value) == "free":
            if "coordinate_constraints" in U(s.targets[0].slice) and isinstance(s.value, ast.Constant) and s.value.value is False:
                mask_store = s
    if mask_store is None:
        ctx.violate("MASK", site + ":constraints", fi, "the coordinates fixed by the grid's symmetry (grid.coordinate_constraints) are not removed from the free parameters")
        return
    ok_grid = U(fv.expand(mask_store.targets[0].slice, mask_store)) == "phase_field.grid.coordinate_constraints"
    # initial value all True of the right length
    d = fv.defs_reaching("free", fv.node_of(mask_store))
    init = None
    for x in d:
        if x.stmt is not None:
            init = fv.value_of_def(x, "free")
    ok_init = init is not None and U(init).replace(" ", "") in ("np.ones(len(data_flat),dtype=bool)", "np.ones(len(data_flat),bool)", "np.ones_like(data_flat,dtype=bool)")
    uses = []
    for g in [fi] + [x for x in m.all_functions() if x.parent is fi]:
        for n in ast.walk(g.node):
            if isinstance(n, ast.Subscript) and U(n.slice) == "free":
                uses.append((g, n))
    uses = [(g, n) for g, n in uses if not (g is fi and fv.node_of(n) is None)]  # nested bodies are listed under their own function
    outer_uses = [n for g, n in uses if g is fi]
    dom = all(fv.dominates(mask_store, n) for n in outer_uses) and all(fv.dominates(mask_store, g.node) for g, n in uses if g is not fi)
    ctx.decide(ok_grid and ok_init and dom and len(uses) >= 4, "MASK", site + ":constraints", (fi, mask_store),
               f"free = all-True mask with the grid's constrained coordinates cleared, before all {len(uses)} uses",
               "the mask of free parameters is not (all True, then phase_field.grid.coordinate_constraints cleared) before its first use: symmetry-fixed coordinates would be fitted")
    # every store into data_flat is indexed by free
    bad = []
    n_st = 0
    for g in [fi] + [x for x in m.all_functions() if x.parent is fi]:
        for s in ast.walk(g.node):
            tg = s.targets if isinstance(s, ast.Assign) else ([s.target] if isinstance(s, ast.AugAssign) else [])
            for t in tg:
                if isinstance(t, ast.Subscript) and U(t.value) == "data_flat":
                    n_st += 1
                    if U(t.slice) != "free":
                        bad.append((g, s))
                elif isinstance(t, ast.Name) and t.id == "data_flat" and g is not fi:
                    bad.append((g, s))
    ctx.decide(not bad and n_st >= 2, "MASK", site + ":stores", (bad[0][0], bad[0][1]) if bad else fi,
               f"all {n_st} stores into the flat parameter vector go through data_flat[free]",
               f"`{U(bad[0][1])[:70] if bad else ''}` writes the flat parameter vector without the `free` mask: constrained coordinates can change")


def check_start(ctx):
    """the fit starts from the candidate's own parameters and bounds"""
    m = ctx.model
    fi = m.func(QUAL)
    fv = view(m, fi)
    site = QUAL
    ok = False
    where = fi
    for s in fv.statements():
        if isinstance(s, ast.Assign) and isinstance(s.targets[0], ast.Name) and s.targets[0].id == "data_flat":
            where = s
            ok = isinstance(s.value, ast.Call) and (fv.callee(s.value) or "").endswith("structured_to_unstructured") and [U(a) for a in s.value.args] == ["droplet.data"]
    ctx.decide(ok, "START", site + ":x0", (fi, where), "flat start vector is the candidate's own data",
               "the start vector is not structured_to_unstructured(droplet.data): the fit does not start from the candidate, so 'never worsens' is not implied by the solver contract")
    okb = False
    for s in fv.statements():
        if isinstance(s, ast.Assign) and U(s.value) == "droplet.data_bounds":
            okb = True
            where = s
    ctx.decide(okb, "START", site + ":bounds", (fi, where), "bounds come from the candidate's class (data_bounds)",
               "bounds are not taken from droplet.data_bounds")
    # promotion to a diffuse droplet and default width
    prom = None
    for s in fv.statements():
        if isinstance(s, ast.If) and "isinstance" in U(s.test) and "DiffuseDroplet" in U(s.test):
            prom = s
    okp = prom is not None and U(prom.test) == "not isinstance(droplet, DiffuseDroplet)" and len(prom.body) == 1 and U(prom.body[0]) == "droplet = DiffuseDroplet.from_droplet(droplet)"
    rebinding = [s for s in fv.statements() if isinstance(s, ast.Assign) and any(isinstance(t, ast.Name) and t.id == "droplet" for t in s.targets)]
    rets = [n.stmt for n in fv.return_nodes()]
    okr = all(r.value is not None and U(r.value) == "droplet" for r in rets) and len(rebinding) == 1
    ctx.decide(bool(okp and okr), "CLASS", site, (fi, prom) if prom is not None else fi,
               "candidate class is kept; only non-diffuse candidates are promoted to DiffuseDroplet; the fitted object is returned",
               "the returned droplet is not the candidate's class (or a DiffuseDroplet for plain spherical candidates)")


def check_wrap(ctx):
    """position := cartesian(normalize_point(grid(position))) after the last data store"""
    m = ctx.model
    fi = m.func(QUAL)
    fv = view(m, fi)
    site = QUAL + ":wrap"
    stores = [s for s in fv.statements() if isinstance(s, ast.Assign) and U(s.targets[0]) == "droplet.position"]
    data_stores = [s for s in fv.statements() if isinstance(s, ast.Assign) and U(s.targets[0]) == "droplet.data"]
    lsq = [c for c in fv.calls() if (fv.callee(c) or "").endswith("least_squares")]
    if not stores:
        ctx.violate("WRAP", site, fi, "the refined position is never wrapped into the box (no store to droplet.position through grid.normalize_point)")
        return
    s = stores[-1]
    ex = fv.expand(s.value, s)
    txt = U(ex).replace("phase_field.grid", "grid")
    want = "grid.transform(grid.normalize_point(grid.transform(droplet.position, 'cartesian', 'grid')), 'grid', 'cartesian')"
    ok_form = txt == want
    after = all(fv.dominates(d, s) for d in data_stores[-1:]) and all(fv.dominates(fv_stmt(fv, c), s) or _reaches(fv, c, s) for c in lsq)
    rets = [n.stmt for n in fv.return_nodes()]
    before_ret = all(fv.dominates(s, r) for r in rets)
    ctx.decide(ok_form and after and before_ret, "WRAP", site, (fi, s),
               "fitted position is converted to grid coordinates, wrapped by normalize_point and converted back, after the fit and before the return",
               ("wrap expression is `" + txt[:100] + "`; " if not ok_form else "") + ("the wrap is executed before the fit result is stored, so the fitted position is returned unwrapped; " if not after else "")
               + ("not on every path to the return" if not before_ret else ""))


def fv_stmt(fv, node):
    return stmt_index(fv).statement(node)


def _reaches(fv, a, b) -> bool:
    na, nb = fv.node_of(a), fv.node_of(b)
    seen, work = set(), [na]
    while work:
        n = work.pop()
        if n in seen or n is None:
            continue
        seen.add(n)
        if n is nb:
            return True
        work.extend(x for x, _ in n.succ)
    return False


def check_image_readonly(ctx, quals=(QUAL, f"{IMG}.refine_droplets", f"{IMG}.locate_droplets")):
    m = ctx.model
    for q in quals:
        fi = m.func(q)
        p = fi.params[0]
        bad = []
        # local names for objects reached from the image through attributes only (`grid = image.grid`,
        # `constraints = image.grid.coordinate_constraints`): the same objects, shared by every task that gets the image
        alias = set()
        changed_ = True
        while changed_:
            changed_ = False
            for s in ast.walk(fi.node):
                if isinstance(s, (ast.Assign, ast.AnnAssign)) and getattr(s, "value", None) is not None:
                    tg_ = s.targets[0] if isinstance(s, ast.Assign) and len(s.targets) == 1 else getattr(s, "target", None)
                    v_ = s.value
                    root_ = v_
                    while isinstance(root_, ast.Attribute):
                        root_ = root_.value
                    if isinstance(tg_, ast.Name) and isinstance(v_, ast.Attribute) and isinstance(root_, ast.Name) and (root_.id == p or root_.id in alias) and tg_.id not in alias:
                        alias.add(tg_.id)
                        changed_ = True
        for g in [fi] + [x for x in m.all_functions() if x.parent is fi]:
            for s in ast.walk(g.node):
                if alias:
                    if isinstance(s, ast.AugAssign) and isinstance(s.target, ast.Name) and s.target.id in alias and isinstance(s.value, (ast.List, ast.ListComp, ast.Tuple, ast.Set, ast.Dict)):
                        bad.append((g, s))  # in-place extension of a shared list
                    if isinstance(s, (ast.Assign, ast.AugAssign)):
                        for t in (s.targets if isinstance(s, ast.Assign) else [s.target]):
                            root = t
                            while isinstance(root, (ast.Attribute, ast.Subscript)):
                                root = root.value
                            if isinstance(t, (ast.Attribute, ast.Subscript)) and isinstance(root, ast.Name) and root.id in alias:
                                bad.append((g, s))
                    if isinstance(s, ast.Call) and isinstance(s.func, ast.Attribute) and s.func.attr in MUTATORS | {"__iadd__", "__imul__"}:
                        root = s.func.value
                        while isinstance(root, (ast.Attribute, ast.Subscript)):
                            root = root.value
                        if isinstance(root, ast.Name) and root.id in alias:
                            bad.append((g, s))
                tg = s.targets if isinstance(s, ast.Assign) else ([s.target] if isinstance(s, ast.AugAssign) else [])
                for t in tg:
                    root = t
                    while isinstance(root, (ast.Attribute, ast.Subscript)):
                        root = root.value
                    if isinstance(t, (ast.Attribute, ast.Subscript)) and isinstance(root, ast.Name) and root.id == p:
                        bad.append((g, s))
                if isinstance(s, ast.Call) and isinstance(s.func, ast.Attribute) and s.func.attr in MUTATORS | {"__iadd__", "__imul__"}:
                    root = s.func.value
                    while isinstance(root, (ast.Attribute, ast.Subscript)):
                        root = root.value
                    if isinstance(root, ast.Name) and root.id == p:
                        bad.append((g, s))
                if isinstance(s, ast.Call):
                    o = kwarg(s, "out") or kwarg(s, "output")
                    if o is not None and (p in names_in(o) or names_in(o) & alias):
                        bad.append((g, s))
        ctx.decide(not bad, "EFFECT", f"{q}:{p}", (bad[0][0], bad[0][1]) if bad else fi, f"nothing is written through `{p}`",
                   f"`{U(bad[0][1])[:70] if bad else ''}` writes through the input image `{p}` (or an object reached from it, which every other task analysing the same image or grid shares)")


# ---------------------------------------------------------------------------- LAYOUT
def dtype_layout(ctx, cname):
    """[(field, size Expr)] from the get_dtype chain, D = dimension, M = number of modes"""
    m = ctx.model
    ci = m.cls(cname)
    fields = []
    chain = [c for c in reversed(m.mro(ci)) if "get_dtype" in c.methods]
    for c in chain:
        fi = c.methods["get_dtype"][0]
        fv_ = view(m, fi)
        for n in ast.walk(fi.node):
            if isinstance(n, ast.Return) and n.value is not None:
                val_ = fv_.expand(n.value, n) if fv_.node_of(n) is not None else n.value
                lists = [x for x in ast.walk(val_) if isinstance(x, ast.List)]
                for l in lists:
                    for e in l.elts:
                        if isinstance(e, ast.Tuple) and e.elts and isinstance(e.elts[0], ast.Constant):
                            name = e.elts[0].value
                            size = Expr.const(1)
                            if len(e.elts) > 2 and isinstance(e.elts[2], ast.Tuple) and e.elts[2].elts:
                                sz = U(e.elts[2].elts[0])
                                # the per-droplet array fields: one entry per space dimension / per perturbation mode, whatever
                                # the local that holds the count is called
                                size = Expr.atom({"position": "D", "amplitudes": "M"}.get(name, {"dim": "D", "modes": "M"}.get(sz, sz)))
                            if name not in [f for f, _ in fields]:
                                fields.append((name, size))
    return fields


def check_bounds_layout(ctx):
    m = ctx.model
    n = 0
    base = m.cls("DropletBase")
    for ci in [base] + m.subclasses(base):
        lst = ci.methods.get("data_bounds")
        if not lst or ci is base:
            continue
        fi = lst[0]
        fv = view(m, fi)
        layout = dtype_layout(ctx, ci.name)
        offs, off = {}, Expr.const(0)
        for f, sz in layout:
            offs[f] = (off, sz)
            off = off + sz
        env = {"self.dim": Expr.atom("D"), "self.modes": Expr.atom("M")}
        cv = Converter(env=env, opaque_calls=False)
        site = fi.qualname
        # which field does this class add? -> the field(s) introduced at this level of the chain
        own_fields = [f for f, _ in layout if f not in [g for g, _ in (dtype_layout(ctx, m.mro(ci)[1].name) if len(m.mro(ci)) > 1 and m.mro(ci)[1] is not base else [])]]
        want_field = {"SphericalDroplet": "radius", "DiffuseDroplet": "interface_width", "PerturbedDropletBase": "amplitudes"}.get(ci.name)
        stores = [(s, t) for s, t in fv.assigns_to_attr() if isinstance(t, ast.Subscript) and isinstance(t.value, ast.Name)]
        if want_field is None or want_field not in offs:
            continue
        o, sz = offs[want_field]
        try:
            if want_field == "amplitudes":
                got = {}
                for s, t in stores:
                    sl = t.slice
                    if isinstance(sl, ast.Name):
                        sl = fv.expand(sl, s)  # a slice object kept in a variable
                    if isinstance(sl, ast.Call) and U(sl.func) == "slice" and len(sl.args) == 2 and not sl.keywords:
                        sl = ast.Slice(lower=sl.args[0], upper=sl.args[1], step=None)
                    if isinstance(sl, ast.Slice) and sl.lower is not None and sl.upper is not None:
                        lo = cv.conv(fv.expand(sl.lower, s))
                        hi = cv.conv(fv.expand(sl.upper, s))
                        got[t.value.id] = (lo, hi, s)
                names = fv_tuple_names(fv)
                ok = len(got) == 2 and all(lo == o and hi == o + sz for lo, hi, _ in got.values())
                vals = {k: U(v[2].value) for k, v in got.items()}
                lown, upn = names if names else (None, None)
                okv = lown in got and upn in got and U(got[lown][2].value) == "-1" and U(got[upn][2].value) == "1"
                n += 1
                ctx.decide(ok and okv, "LAYOUT", site, (fi, list(got.values())[0][2]) if got else fi,
                           f"amplitude bounds [-1, 1] stored at flat offsets [{o.show()}, {(o + sz).show()}) of the dtype",
                           f"amplitude bounds are stored at {[(k, v[0].show(), v[1].show()) for k, v in got.items()]} with values {vals}; the amplitudes occupy [{o.show()}, {(o + sz).show()}) and need lower −1 / upper +1")
            else:
                hits = []
                for s, t in stores:
                    if not isinstance(t.slice, ast.Slice):
                        hits.append((t.value.id, cv.conv(fv.expand(t.slice, s)), s))
                names = fv_tuple_names(fv)
                lown = names[0] if names else None
                ok = len(hits) == 1 and hits[0][1] == o and hits[0][0] == lown and U(hits[0][2].value) in ("0", "0.0")
                n += 1
                ctx.decide(ok, "LAYOUT", site, (fi, hits[0][2]) if hits else fi,
                           f"lower bound 0 for `{want_field}` at flat offset {o.show()}",
                           f"bound stores {[(h[0], h[1].show(), U(h[2].value)) for h in hits]} do not put a lower bound 0 at the offset {o.show()} of `{want_field}`")
        except NotAlgebraic as exc:
            ctx.undecided("LAYOUT", site, fi, str(exc))
        # the parent's bounds are kept
        sup = [c for c in fv.calls() if U(c.func).startswith("super()") or "super().data_bounds" in U(c)]
        has_super = any("super().data_bounds" in U(s) for s in fv.statements())
        ctx.decide(has_super, "LAYOUT", site + ":chain", fi, "extends the parent's bounds", "does not start from super().data_bounds: the parent's bounds (radius ≥ 0, …) are lost")
    return n


def fv_tuple_names(fv):
    """names (l, h) bound from super().data_bounds"""
    for s in fv.statements():
        if isinstance(s, ast.Assign) and isinstance(s.targets[0], ast.Tuple) and "data_bounds" in U(s.value):
            t = s.targets[0]
            if len(t.elts) == 2 and all(isinstance(e, ast.Name) for e in t.elts):
                return t.elts[0].id, t.elts[1].id
    return None
