"""Rules over the collection classes (Emulsion, EmulsionTimeCourse, DropletTrack,
DropletTrackList): overlap removal and distances (C10), ownership / lock-step /
rejection guards (C20), safe removal loops (C18, C20)."""

from __future__ import annotations

import ast

from ..algebra import Converter, Expr, NotAlgebraic
from ..astutil import U, view, arg_or_kw, kwarg, names_in, stmt_index, compare_parts, MUTATORS, flat_tests, value_cases, truth_of, symbolic_paths
from ..cfg import walk_no_nested
from ..model import dotted

EM = "droplets.emulsions"
TR = "droplets.droplet_tracks"
DROP = "droplets.droplets"


# ----------------------------------------------------------------------------- C10
def _self_mutations(fi, allow=("pop",)):
    """statements that modify ``self`` (the list) other than by the allowed methods"""
    others = []
    for s in ast.walk(fi.node):
        if isinstance(s, ast.Call) and isinstance(s.func, ast.Attribute) and U(s.func.value) == "self" and s.func.attr in (MUTATORS - set(allow)) | {"sort", "reverse", "__delitem__", "__setitem__"}:
            others.append(s)
        tg = s.targets if isinstance(s, ast.Assign) else ([s.target] if isinstance(s, ast.AugAssign) else (s.targets if isinstance(s, ast.Delete) else []))
        for t_ in tg:
            if isinstance(t_, ast.Subscript) and U(t_.value) == "self":
                others.append(s)
    # … and calls of the collection's own in-place methods (self.remove_small(), self.clear() …): methods of the same class
    # that themselves modify the list
    ci = getattr(fi, "cls", None)
    if ci is not None and _depth[0] == 0:
        _depth[0] += 1
        try:
            mutating = set()
            for name, lst in ci.methods.items():
                if name == fi.name or name.startswith("__"):
                    continue
                for g in lst:
                    direct = _self_mutations(g, allow=())
                    via_super = [c for c in ast.walk(g.node) if isinstance(c, ast.Call) and U(c.func) in ("super().append", "super().extend", "super().insert", "super().clear", "super().pop", "super().remove")]
                    if direct or via_super:
                        mutating.add(name)
            for s in ast.walk(fi.node):
                if isinstance(s, ast.Call) and isinstance(s.func, ast.Attribute) and U(s.func.value) == "self" and s.func.attr in mutating and s.func.attr not in allow:
                    others.append(s)
        finally:
            _depth[0] -= 1
    return others


_depth = [0]


def check_remove_overlapping(ctx):
    m = ctx.model
    fi = m.func(f"{EM}.Emulsion.remove_overlapping")
    fv = view(m, fi)
    si = stmt_index(fv)
    site = fi.qualname
    src = [c for c in fv.calls() if isinstance(c.func, ast.Attribute) and c.func.attr == "get_pairwise_distances" and U(c.func.value) == "self"]
    if len(src) != 1:
        ctx.violate("METRIC", site + ":matrix", fi, "distances are not taken from self.get_pairwise_distances(subtract_radius=True, grid=grid)")
        return
    st = si.statement(src[0])
    D = U(st.targets[0]) if isinstance(st, ast.Assign) else None
    sr = arg_or_kw(src[0], 0, "subtract_radius")
    g = arg_or_kw(src[0], 1, "grid")
    ok = isinstance(sr, ast.Constant) and sr.value is True and g is not None and U(g) == "grid"
    ctx.decide(ok, "METRIC", site + ":matrix", (fi, src[0]), "surface distances in the supplied grid's metric",
               f"`{U(src[0])}`: overlap removal must use surface-to-surface distances (subtract_radius=True) measured with grid=grid")
    if D is None:
        ctx.undecided("GUARDSHAPE", site + ":loop", fi, "distance matrix not bound to a name")
        return
    fd = [c for c in fv.calls() if (fv.callee(c) or "").endswith("fill_diagonal")]
    loops = [s for s in fv.statements() if isinstance(s, ast.While)]
    if len(loops) != 1:
        ctx.undecided("GUARDSHAPE", site + ":loop", fi, "no single while loop")
        return
    wl = loops[0]
    okd = len(fd) == 1 and U(fd[0].args[0]) == D and U(fd[0].args[1]) in ("np.inf", "math.inf", "float('inf')") and fv.dominates(fd[0], wl)
    ctx.decide(okd, "GUARDSHAPE", site + ":diagonal", (fi, fd[0]) if fd else fi, "self-distances are set to ∞ before searching the closest pair",
               "the diagonal of the distance matrix is not set to ∞ before the loop: a droplet would be its own closest 'pair'")
    okw = U(wl.test) in (f"len({D}) > 1", f"len({D}) >= 2", f"{D}.shape[0] > 1", "len(self) > 1", "len(self) >= 2")
    um = [c for c in fv.calls() if (fv.callee(c) or "").endswith("unravel_index") and any(x is c for x in ast.walk(wl))]
    pair = None
    if um:
        c = um[0]
        a0 = fv.expand(c.args[0], c, stop=(D,), allow_mutated=True)
        glob = isinstance(a0, ast.Call) and (((fv.callee(a0) or "").endswith("argmin") and len(a0.args) == 1 and U(a0.args[0]) == D and not a0.keywords)
                                             or (isinstance(a0.func, ast.Attribute) and a0.func.attr == "argmin" and U(a0.func.value) == D and not a0.args and not a0.keywords))
        s_um = si.statement(c)
        if isinstance(s_um, ast.Assign) and isinstance(s_um.targets[0], ast.Tuple) and len(s_um.targets[0].elts) == 2:
            pair = tuple(U(e) for e in s_um.targets[0].elts)
        okw = okw and glob and len(c.args) > 1 and U(c.args[1]) == f"{D}.shape"
    ctx.decide(bool(okw and pair), "GUARDSHAPE", site + ":loop", (fi, wl), "while more than one droplet is left: take the globally closest pair",
               "the removal loop does not repeatedly take the globally closest remaining pair while more than one droplet is left")
    if not pair:
        return
    x, y = pair
    # ---- EXIT: the only ways out are the loop condition and the not-closer break; early returns may only depend on the number of members
    from .empty import nonempty_guard

    for r_ in [s_ for s_ in fv.statements() if isinstance(s_, ast.Return)]:
        conds = si.effective_guards(r_)
        harmless = all(("len(self)" in U(t) or U(t) in ("self", "not self")) and not (names_in(t) - {"self", "len"}) for t, p in conds) and bool(conds)
        if not harmless:
            ctx.violate("GUARDSHAPE", site + ":exit", (fi, r_),
                        f"early `return` under {[U(t) for t, p in conds]}: the method stops without examining the exact pairwise surface distances (e.g. a nearest-centre pre-check misses a large droplet overlapping a droplet that is not its nearest centre)")
    pops = [c for c in fv.calls() if isinstance(c.func, ast.Attribute) and c.func.attr == "pop" and U(c.func.value) == "self" and any(z is c for z in ast.walk(wl))]
    others = _self_mutations(fi)
    ctx.decide(len(pops) >= 1 and not others, "EFFECT", site + ":pop-only", (fi, others[0]) if others else fi,
               "the emulsion is modified only by pop(index): survivors are the original objects in their original order",
               f"the emulsion is modified other than by pop (`{U(others[0])[:60] if others else 'no pop at all'}`): survivors may be copies or reordered")
    if not pops:
        return
    close_txt = (f"{D}[{x}, {y}] < min_distance", f"{D}[{y}, {x}] < min_distance")
    # ---- closeness: a droplet is removed only when D[x, y] < min_distance; the loop ends otherwise
    okt = True
    for c in pops:
        eg = []
        for t, p in si.effective_guards(c):
            if any(z is t for z in ast.walk(wl)):
                eg += [(U(a), q) for a, q in flat_tests(t, p)]
        if not any(t in close_txt and q for t, q in eg):
            okt = False
    brk = [s for s in ast.walk(wl) if isinstance(s, ast.Break)]
    okb = False
    for b in brk:
        eg = []
        for t, p in si.effective_guards(b):
            if any(z is t for z in ast.walk(wl)):
                eg += [(U(a), q) for a, q in flat_tests(t, p)]
        if any(t in close_txt and not q for t, q in eg):
            okb = True
    ctx.decide(okt and okb, "GUARDSHAPE", site + ":closeness", (fi, pops[0]),
               "a pair is resolved iff its surface distance is strictly below min_distance; otherwise the loop ends",
               f"droplets are not removed exactly when `{close_txt[0]}` (strict) with `break` otherwise: pairs exactly at the minimal distance are removed, or the loop ends while closer pairs remain")
    # ---- tie-break and paired removal, path-sensitively
    rx, ry = f"self[{x}].radius", f"self[{y}].radius"
    cases = []  # (x_strictly_bigger: bool|None, removed index text, pop call)
    for c in pops:
        # (the pair's indices stay symbolic where they come from the arg-min; a swap `x, y = y, x` is followed)
        for dec, val in value_cases(fv, c, c.args[0], stop=(D,), keep=(x, y)):
            pol = None
            for txt, bigger_is_x in ((f"{rx} > {ry}", True), (f"{ry} < {rx}", True), (f"{ry} > {rx}", False), (f"{rx} < {ry}", False)):
                tv = truth_of(dec, txt)
                if tv is not None:
                    pol = (tv, bigger_is_x)
            cases.append((pol, U(val), c))
    ok, detail = True, []
    decided_cases = 0
    for pol, removed, c in cases:
        if pol is None:
            continue
        decided_cases += 1
        tv, bigger_is_x = pol
        strictly_bigger = (x if bigger_is_x else y) if tv else None
        detail.append(f"{'x' if bigger_is_x else 'y'} strictly larger={tv} → pop({removed})")
        if strictly_bigger is not None and removed == strictly_bigger:
            ok = False
        if removed not in (x, y):
            ok = False
    # both outcomes of the radius test must remove different droplets (otherwise ties/any case removes the larger one)
    outcomes = {(pol[0], removed) for pol, removed, c in cases if pol is not None}
    if decided_cases == 0:
        # the size of the two droplets is compared through another attribute?
        other_attr = None
        for t_ in [x_ for x_ in ast.walk(wl) if isinstance(x_, ast.Compare) and len(x_.ops) == 1]:
            l_, r_ = t_.left, t_.comparators[0]
            if isinstance(l_, ast.Attribute) and isinstance(r_, ast.Attribute) and l_.attr == r_.attr and l_.attr != "radius" and {U(l_.value), U(r_.value)} == {f"self[{x}]", f"self[{y}]"}:
                other_attr = (t_, l_.attr)
        if other_attr is not None:
            ctx.violate("GUARDSHAPE", site + ":tie-break", (fi, other_attr[0]),
                        f"`{U(other_attr[0])}` decides which droplet of the pair is removed by comparing `.{other_attr[1]}` instead of the radius: for droplets whose {other_attr[1]} is not a monotone "
                        "function of the radius (perturbed shapes, values that underflow to 0) the droplet with the strictly larger radius can be the one that is removed")
        else:
            ctx.undecided("GUARDSHAPE", site + ":tie-break", (fi, pops[0]), "no comparison of the two radii decides which droplet is removed")
    else:
        two_sided = len({r for _, r in outcomes}) == 2
        ctx.decide(ok and two_sided, "GUARDSHAPE", site + ":tie-break", (fi, pops[0]),
                   "when one droplet is strictly larger, the other one is removed: the removed droplet is never strictly larger than its partner",
                   f"removal cases {sorted(set(detail))}: a strictly larger droplet can be removed in favour of a smaller one")
    # ---- PAIR:stale — any other per-member array that the loop indexes with the pair (x, y) is a third parallel structure: it
    # must shrink with every pop as well, otherwise its entries belong to other droplets after the first removal
    stale = []
    for n_ in ast.walk(wl):
        if isinstance(n_, ast.Subscript) and isinstance(n_.value, ast.Name) and n_.value.id not in (D, "self") and isinstance(n_.slice, ast.Name) and n_.slice.id in (x, y):
            nm_ = n_.value.id
            defs_in = [s_ for s_ in ast.walk(wl) if isinstance(s_, (ast.Assign, ast.AugAssign)) and U(s_.targets[0] if isinstance(s_, ast.Assign) else s_.target) == nm_]
            shrunk = any("delete" in U(s_) or ".pop(" in U(s_) for s_ in defs_in) or any(isinstance(c_, ast.Call) and U(c_.func) == f"{nm_}.pop" for c_ in ast.walk(wl))
            if not shrunk:
                stale.append((n_, nm_))
    if stale:
        ctx.violate("PAIR", f"{site}:stale", (fi, stale[0][0]), f"`{U(stale[0][0])}` indexes the per-member array `{stale[0][1]}` (built before the loop) with the indices of the shrinking list/matrix, but the "
                    "array is never shrunk: after the first removal its entries belong to other droplets, so a later pair can lose its larger member")
    # ---- PAIR: the index popped is the row and the column deleted from the matrix, on the same path
    dels = [s for s in ast.walk(wl) if isinstance(s, ast.Assign) and U(s.targets[0]) == D and "delete" in U(s.value)]

    def parse(call):
        if isinstance(call, ast.Call) and (fv.callee(call) or "").endswith("numpy.delete"):
            if len(call.args) >= 3:
                return call.args[0], call.args[1], U(call.args[2])
            if len(call.args) == 2 and kwarg(call, "axis") is not None:
                return call.args[0], call.args[1], U(kwarg(call, "axis"))
        return None

    for k, c in enumerate(pops):
        blk = si.parent.get(id(si.statement(c)))
        sib = getattr(blk[0], blk[1]) if blk and blk[0] is not None else fi.node.body
        local = [s for s in sib if s in dels] or dels
        idx = U(c.args[0])
        ok, detail = False, "no matrix update next to the pop"
        if len(local) >= 1:
            # temporaries between the two deletions are resolved (row first, column second, or nested in one expression)
            v = fv.expand(local[-1].value, local[-1], stop=(D, x, y, idx), allow_mutated=True)
            outer_ = parse(v)
            inner_ = parse(outer_[0]) if outer_ else None
            if outer_ and inner_ and U(inner_[0]) == D:
                axes = {outer_[2]: U(outer_[1]), inner_[2]: U(inner_[1])}
                ok = axes == {"0": idx, "1": idx}
                detail = f"rows/columns deleted: axis→index {axes}"
        ctx.decide(ok, "PAIR", f"{site}:pop#{k}", (fi, c), f"pop({idx}) is paired with deleting row {idx} and column {idx} of the distance matrix",
                   f"pop({idx}) is not paired with deleting row {idx} AND column {idx} of the cached distance matrix ({detail}): rows and columns then refer to different droplets and later decisions use wrong distances")


def check_pairwise(ctx):
    m = ctx.model
    fi = m.func(f"{EM}.Emulsion.get_pairwise_distances")
    fv = view(m, fi)
    si = stmt_index(fv)
    site = fi.qualname
    # ---- metric selection: exactly on `grid is None` — resolved by value: which callable measures the distance when no grid
    # is given and which one when a grid is given (nested closure, module-level helper, lambda or functools.partial alike)
    from ..astutil import contradicts, canon_tests

    tests = [s for s in fv.statements() if isinstance(s, ast.If) and "grid" in names_in(s.test)]
    fname = None
    dist_calls = [c for c in fv.calls() if isinstance(c.func, ast.Name) and len(c.args) == 2 and all(isinstance(a_, ast.Attribute) and a_.attr == "position" for a_ in c.args)]
    if len({c.func.id for c in dist_calls}) == 1:
        fname = dist_calls[0].func.id
    if len(tests) == 1 and fname is not None:
        t = tests[0]
        cp = compare_parts(t.test)
        pure = cp is not None and U(cp[0]) == "grid" and isinstance(cp[1], (ast.Is, ast.IsNot)) and isinstance(cp[2], ast.Constant) and cp[2].value is None
        if not pure:
            ctx.violate("METRIC", site, (fi, t),
                        f"metric selection `if {U(t.test)}`: the periodic metric grid.distance(…, coords='cartesian') must be used whenever a grid is supplied (any mix of periodic axes), the Euclidean norm only for grid None")
        else:
            defs_ = []  # (guards, kind, payload)
            for g_ in m.all_functions():
                if g_.parent is fi and g_.name == fname and not isinstance(g_.node, ast.Lambda):
                    defs_.append((si.effective_guards(g_.node), "func", g_))
            for s_ in fv.statements():
                if isinstance(s_, (ast.Assign, ast.AnnAssign)) and s_.value is not None and U(s_.targets[0] if isinstance(s_, ast.Assign) else s_.target) == fname:
                    defs_.append((si.effective_guards(s_), "value", s_.value))

            def _is_euclid(kind, payload):
                node = None
                if kind == "func":
                    node = payload.node
                elif isinstance(payload, ast.Lambda):
                    node = payload
                elif isinstance(payload, ast.Name):
                    q = m.resolve(fv.mod, payload.id)
                    if q and m.has_func(q):
                        node = m.func(q).node
                if node is None:
                    return False
                ps = [a_.arg for a_ in node.args.args]
                body = node.body if isinstance(node, ast.Lambda) else None
                if body is None:
                    rets_ = [x for x in ast.walk(node) if isinstance(x, ast.Return) and x.value is not None]
                    body = rets_[0].value if len(rets_) == 1 else None
                return body is not None and len(ps) == 2 and U(body) in (f"np.linalg.norm({ps[0]} - {ps[1]})", f"np.linalg.norm({ps[1]} - {ps[0]})")

            def _is_periodic(kind, payload):
                return kind == "value" and U(payload) in ("functools.partial(grid.distance, coords='cartesian')", "partial(grid.distance, coords='cartesian')",
                                                          "lambda p1, p2: grid.distance(p1, p2, coords='cartesian')")

            none_defs = [d for d in defs_ if not contradicts(d[0], {("grid is None", True)})]
            grid_defs = [d for d in defs_ if not contradicts(d[0], {("grid is None", False)})]
            ok_eu = len(none_defs) == 1 and _is_euclid(none_defs[0][1], none_defs[0][2])
            ok_gr = len(grid_defs) == 1 and _is_periodic(grid_defs[0][1], grid_defs[0][2])
            ctx.decide(ok_eu and ok_gr, "METRIC", site, (fi, t),
                       "Euclidean distance exactly when no grid is given; grid.distance(coords='cartesian') for every supplied grid",
                       "the two metrics are not np.linalg.norm(p1 - p2) (no grid) and functools.partial(grid.distance, coords='cartesian') (grid given)")
    elif len(tests) == 1:
        ctx.undecided("METRIC", site, (fi, tests[0]), "the call that measures the distance between two positions was not found")
    else:
        ctx.violate("METRIC", site, fi, f"{len(tests)} tests on the grid: expected the single selection `grid is None` → Euclidean, else grid.distance")
        fname = None
    # ---- symmetric zero-diagonal construction
    rets = [n.stmt for n in fv.return_nodes() if n.stmt.value is not None]
    D = U(rets[-1].value) if rets and isinstance(rets[-1].value, ast.Name) else None
    if D is None:
        ctx.undecided("SYMM", site, fi, "returned matrix is not a local name")
        return
    init = [s for s in fv.statements() if isinstance(s, (ast.Assign, ast.AnnAssign)) and U(s.targets[0] if isinstance(s, ast.Assign) else s.target) == D]
    ok0 = len(init) == 1 and U(fv.expand(init[0].value, init[0])).replace(" ", "") in ("np.zeros((len(self),len(self)))", "np.zeros([len(self),len(self)])")
    stores = [s for s in fv.statements() if isinstance(s, ast.Assign) and isinstance(s.targets[0], ast.Subscript) and U(s.targets[0].value) == D and isinstance(s.targets[0].slice, ast.Tuple) and len(s.targets[0].slice.elts) == 2]
    loops = [s for s in fv.statements() if isinstance(s, ast.For) and any(x is st for st in stores for x in ast.walk(s))]
    okl = False
    iv = jv = None
    if len(loops) == 2:
        outer_l, inner_l = (loops[0], loops[1]) if any(x is loops[1] for x in ast.walk(loops[0])) else (loops[1], loops[0])
        iv, jv = U(outer_l.target), U(inner_l.target)
        okl = U(fv.expand(outer_l.iter, outer_l)) == "range(len(self))" and U(fv.expand(inner_l.iter, inner_l)).replace(" ", "") in (f"range({iv}+1,len(self))", f"range(1+{iv},len(self))")
    elif len(loops) == 1 and isinstance(loops[0].target, ast.Tuple) and len(loops[0].target.elts) == 2:
        # for i, j in itertools.combinations(range(n), 2): all pairs i < j in the same order
        iv, jv = (U(e) for e in loops[0].target.elts)
        okl = U(fv.expand(loops[0].iter, loops[0])).replace(" ", "") in ("itertools.combinations(range(len(self)),2)", "combinations(range(len(self)),2)")
    idx = {tuple(U(e) for e in s.targets[0].slice.elts) for s in stores}
    vals = {U(fv.expand(s.value, s, allow_mutated=True, stop=(iv or "", jv or ""))) for s in stores}
    oksym = iv is not None and idx == {(iv, jv), (jv, iv)} and len(vals) == 1
    ctx.decide(ok0 and okl and oksym, "SYMM", site, (fi, stores[0]) if stores else fi,
               "matrix starts as zeros and every pair i<j is written to both [i,j] and [j,i]: symmetric with zero diagonal",
               "the matrix is not (zeros(n,n); for i<j: D[i,j] = D[j,i] = d): symmetry or the zero diagonal is lost")
    # ---- every pair is written: no pair is skipped by a test on measured values (`if dist == 0: continue` leaves the entry of two
    # coinciding centres at 0 although their surface distance is −(r1 + r2))
    if stores and loops:
        si_ = stmt_index(fv)
        innermost = loops[-1] if len(loops) == 1 else inner_l
        skips = [x for x in ast.walk(innermost) if isinstance(x, (ast.Continue, ast.Break))]
        g_ = [t for st_ in stores for t, _p in si_.effective_guards(st_) if any(y is t for y in ast.walk(innermost))]
        bad_ = skips[0] if skips else None
        ctx.decide(not skips and not g_, "SYMM", site + ":every-pair", (fi, bad_) if bad_ is not None else ((fi, stores[0]) if not g_ else (fi, g_[0])),
                   "the entry of every pair i<j is written unconditionally",
                   f"some pairs are not written (`{U(g_[0])[:50] if g_ else 'continue/break in the pair loop'}`): their entry keeps the initial 0 — for coinciding centres with "
                   "subtract_radius=True the matrix says 0 where the surface distance is −(r1 + r2), so overlaps() and the matrix disagree and remove_overlapping keeps concentric droplets")
    # ---- the distance itself
    if stores and iv is not None:
        s0 = stores[0]
        okp = oks = False
        if isinstance(s0.value, ast.Name):
            dn = s0.value.id
            cases = value_cases(fv, s0, s0.value, stop=(iv, jv, fname or "get_distance"))
            seen = set()
            for dec, val in cases:
                sub = truth_of(dec, "subtract_radius")
                ex = ast.parse(U(val), mode="eval").body
                # resolve droplet temporaries
                txt = U(ex)
                seen.add((sub, txt))
            # expected texts
            base_call = None
            conv = Converter(opaque_calls=True)
            try:
                forms = {}
                for sub, txt in seen:
                    forms.setdefault(sub, set()).add(conv.conv(ast.parse(txt, mode="eval").body).show())
                Pi, Pj = f"self[{iv}]", f"self[{jv}]"
                fn = fname or "get_distance"
                d_atoms = [f"{fn}({Pi}.position, {Pj}.position)", f"{fn}({Pj}.position, {Pi}.position)"]
                want_plain = {Expr.atom(a).show() for a in d_atoms}
                want_sub = {(Expr.atom(a) - Expr.atom(f"{Pi}.radius") - Expr.atom(f"{Pj}.radius")).show() for a in d_atoms}
                plain = forms.get(False, set()) | (forms.get(None, set()) if True not in forms and False not in forms else set())
                okp = bool(forms.get(False)) and forms[False] <= want_plain
                oks = bool(forms.get(True)) and forms[True] <= want_sub
            except (NotAlgebraic, SyntaxError):
                okp = oks = False
        ctx.decide(bool(okp and oks), "SURFACE", site, (fi, s0),
                   "entry = metric distance of the two centres, minus both radii exactly when subtract_radius is set",
                   "the matrix entry is not distance(self[i].position, self[j].position) − (r_i + r_j) [only with subtract_radius]: surface distances are wrong")


def check_neighbor(ctx):
    m = ctx.model
    fi = m.func(f"{EM}.Emulsion.get_neighbor_distances")
    fv = view(m, fi)
    site = fi.qualname
    q = [c for c in fv.calls() if isinstance(c.func, ast.Attribute) and c.func.attr == "query"]
    okq = False
    if len(q) == 1:
        k = arg_or_kw(q[0], 1, "k")
        okq = k is not None and U(k) == "2" and U(fv.expand(q[0].args[0], q[0])) == "self.data['position']"
    st = stmt_index(fv).statement(q[0]) if q else None
    dn = xn = None
    if isinstance(st, ast.Assign) and isinstance(st.targets[0], ast.Tuple) and len(st.targets[0].elts) == 2:
        dn, xn = (U(e) for e in st.targets[0].elts)
    got = set()
    for n in fv.return_nodes():
        for dec, val in value_cases(fv, n.stmt, n.stmt.value, stop=(dn or "", xn or "")):
            got.add((truth_of(dec, "subtract_radius"), U(val)))
    want_plain = f"{dn}[:, 1]"
    want_sub = f"{dn}[:, 1] - np.sum(self.data['radius'][{xn}], axis=1)"
    oksel = (False, want_plain) in got and (True, want_sub) in got and not any(v in (want_plain, want_sub) and ((s is True and v == want_plain) or (s is False and v == want_sub)) for s, v in got)
    ctx.decide(okq and oksel, "NEIGHBOR", site, (fi, q[0]) if q else fi,
               "two nearest hits per droplet (itself and its nearest neighbour); column 1 is returned, minus both radii on request",
               "nearest-neighbour distances are not taken from the second hit of a 2-nearest query on the droplet positions (minus the radii of both droplets exactly when requested)")
    # with subtract_radius the documented quantity is the distance between the *surfaces* to the nearest neighbour, i.e. the
    # row minimum of the surface-distance matrix.  A query on the centres alone chooses the neighbour before the radii are
    # subtracted: it is the row minimum only when all radii are equal.
    sub_vals = [v for s_, v in got if s_ is True]
    by_centre = bool(q) and any(xn and f"[{xn}]" in v and dn and v.startswith(f"{dn}[:, 1]") for v in sub_vals)
    ctx.decide(not by_centre, "NEIGHBOR", site + ":surface-minimum", (fi, q[0]) if q else fi,
               "the surface distance to the nearest neighbour is minimised over the surface distances themselves",
               "with subtract_radius=True the neighbour is chosen by centre distance (k-d tree on the positions) and the two radii are subtracted afterwards: for droplets of different size this is not "
               "the minimum of the surface distances (1-d droplets (x, r) = (0, 1), (3, 0.1), (−4, 2.9): row minima of the surface-distance matrix [0.1, 1.9, 0.1], returned [1.9, 1.9, 0.1])")
    small = {}
    for n in fv.return_nodes():
        for dec, val in value_cases(fv, n.stmt, n.stmt.value, stop=(dn or "", xn or "")):
            if U(val) in ("np.zeros((0,))", "np.full(1, np.nan)"):
                small.setdefault(U(val), []).append((truth_of(dec, "len(self) == 0"), truth_of(dec, "len(self) == 1")))
    ok_small = small.get("np.zeros((0,))") == [(True, None)] and small.get("np.full(1, np.nan)") == [(False, True)]
    ctx.decide(ok_small, "NEIGHBOR", site + ":small", fi, "0 droplets → empty array, exactly 1 droplet → NaN, decided before the tree query",
               f"emulsions with fewer than two droplets are not answered with an empty array (len 0) / NaN (len 1): cases {small}")
    # the k-d tree query uses the Euclidean metric (Minkowski order 2, the default) and exact search
    for c_ in [c for c in ast.walk(fi.node) if isinstance(c, ast.Call) and isinstance(c.func, ast.Attribute) and c.func.attr == "query"]:
        pk = next((k.value for k in c_.keywords if k.arg == "p"), c_.args[3] if len(c_.args) > 3 else None)
        ek = next((k.value for k in c_.keywords if k.arg == "eps"), c_.args[2] if len(c_.args) > 2 else None)
        okq = (pk is None or U(pk) in ("2", "2.0")) and (ek is None or U(ek) in ("0", "0.0"))
        ctx.decide(okq, "NEIGHBOR", site + ":metric", (fi, c_), "neighbours are searched exactly and in the Euclidean metric",
                   f"`{U(c_)[:70]}` searches with Minkowski order p={U(pk) if pk is not None else 2} / eps={U(ek) if ek is not None else 0}: the neighbour and its distance are not those of the "
                   "Euclidean distance matrix (in two or three dimensions the nearest-neighbour distances are not the row minima)")
    for q in (f"{EM}.Emulsion.get_neighbor_distances", f"{EM}.Emulsion.get_pairwise_distances"):
        g = m.func(q)
        d_ = g.default_of("subtract_radius")
        ctx.decide(isinstance(d_, ast.Constant) and d_.value is False, "NEIGHBOR", q + ":default", g, "centre distances by default (subtract_radius=False)",
                   "subtract_radius does not default to False: the documented default is the centre-to-centre distance")


def check_from_random(ctx):
    m = ctx.model
    fi = m.func(f"{EM}.Emulsion.from_random")
    fv = view(m, fi)
    site = fi.qualname
    inner = [g for g in m.all_functions() if g.parent is fi]
    seen = set()
    for g in inner:
        rets = [s for s in ast.walk(g.node) if isinstance(s, ast.Return)]
        seen.add(U(rets[0].value) if rets else "")
    bn = [s for s in fv.statements() if isinstance(s, ast.Assign) and "atleast_2d" in U(s.value)]
    b = U(bn[0].targets[0]) if bn else "bnds"
    bdefs = [s for s in fv.statements() if isinstance(s, ast.Assign) and U(s.targets[0]) == b]
    ok_b = len(bdefs) == 1 and U(bdefs[0].value) == f"np.atleast_2d({fi.params[2] if len(fi.params) > 2 else 'grid_or_bounds'})"
    ctx.decide(ok_b, "RANDOM", site + ":bounds", (fi, bdefs[0]) if bdefs else fi, "bounds are taken as given: one (lower, upper) row per axis",
               f"the bounds array is `{U(bdefs[0].value)[:70] if bdefs else '?'}`, not the given (lower, upper) pairs: re-ordering or transforming it (e.g. sorting across axes) moves droplets outside the requested region")
    # every droplet: droplet_class(<position>, rng.uniform(r0, r1)); the position source is resolved by value
    from ..astutil import terminal_values

    cons = [c for c in fv.calls(nested=True) if U(c.func) == "droplet_class" and len(c.args) == 2]
    pos_fn = None
    if len(cons) == 1 and fv.node_of(cons[0]) is not None:
        pe = fv.expand(cons[0].args[0], cons[0])
        if isinstance(pe, ast.Call) and isinstance(pe.func, ast.Name) and not pe.args and not pe.keywords:
            pos_fn = pe.func.id
    seen = set()
    if pos_fn is not None:
        for g in inner:
            if g.name == pos_fn and not isinstance(g.node, ast.Lambda):
                gv_ = view(m, g)
                rets = [s for s in ast.walk(g.node) if isinstance(s, ast.Return) and s.value is not None]
                for r_ in rets:
                    ex_ = gv_.expand(r_.value, r_)
                    from ..astutil import resolve_closure_aliases

                    seen.add(U(_resolve_outer_plain(m, fv, g, ex_)))
        for s_ in fv.statements():
            if isinstance(s_, (ast.Assign, ast.AnnAssign)) and s_.value is not None and U(s_.targets[0] if isinstance(s_, ast.Assign) else s_.target) == pos_fn:
                v_ = s_.value
                if isinstance(v_, ast.Call) and U(v_.func) in ("functools.partial", "partial") and v_.args:
                    kw_ = ", ".join(f"{k.arg}={U(k.value)}" for k in v_.keywords)
                    seen.add(f"{U(v_.args[0])}({', '.join([U(a_) for a_ in v_.args[1:]] + ([kw_] if kw_ else []))})")
                elif isinstance(v_, ast.Lambda) and not v_.args.args:
                    seen.add(U(v_.body))
    gp_ = fi.params[2] if len(fi.params) > 2 else "grid_or_bounds"
    ok_pos = seen == {f"{gp_}.get_random_point(rng=rng)", f"rng.uniform({b}[:, 0], {b}[:, 1])"}
    if pos_fn is None:
        ctx.undecided("RANDOM", site + ":position", fi, "the callable that draws a position was not found")
    else:
        ctx.decide(ok_pos, "RANDOM", site + ":position", fi, "positions: grid.get_random_point(rng) or uniform(lower bounds, upper bounds)",
                   f"random positions are drawn as {sorted(seen)}; they must be uniform between the lower (column 0) and upper (column 1) bounds / grid.get_random_point")
    okr = False
    if len(cons) == 1 and pos_fn is not None:
        c = cons[0]
        rad = fv.expand(c.args[1], c)
        okr = isinstance(rad, ast.Call) and U(rad.func) == "rng.uniform" and len(rad.args) == 2 and all(isinstance(a_, ast.Name) for a_ in rad.args)
        if okr:
            par_r = "radius"
            lo_v = terminal_values(fv, rad.args[0].id, c, stop=(par_r,))
            hi_v = terminal_values(fv, rad.args[1].id, c, stop=(par_r,))
            okr = lo_v == {f"{par_r}[0]", f"float({par_r})"} and hi_v == {f"{par_r}[1]", f"float({par_r})"}
        # number of droplets
        lpq = stmt_index(fv).enclosing(c, (ast.For,))
        gen = [n for n in ast.walk(fi.node) if isinstance(n, (ast.ListComp, ast.GeneratorExp)) and any(z is c for z in ast.walk(n))]
        cnt = U(lpq[0].iter) if lpq else (U(gen[0].generators[0].iter) if gen else "")
        okr = okr and cnt == "range(num)"
    ctx.decide(okr, "RANDOM", site + ":radius", (fi, cons[0]) if cons else fi, "num droplets, radii uniform in [r0, r1] (r0 = r1 for a single number)",
               "random droplets are not `num` × droplet_class(get_position(), rng.uniform(r0, r1)) with (r0, r1) the requested radius range")


def _resolve_outer_plain(model, pv, closure_fi, expr):
    """names a nested function reads from its enclosing function and that have there one plain definition are substituted"""
    import copy

    own = {n.id for n in ast.walk(closure_fi.node) if isinstance(n, ast.Name) and isinstance(n.ctx, ast.Store)} | set(closure_fi.all_params)
    at = pv.node_of(closure_fi.node)

    class R(ast.NodeTransformer):
        def visit_Name(self, n):
            if isinstance(n.ctx, ast.Load) and n.id not in own and at is not None and n.id not in pv.mutated:
                r = pv.single_def_value(n.id, at)
                if r is not None and isinstance(r[0], (ast.Subscript, ast.Attribute)):
                    return ast.copy_location(copy.deepcopy(r[0]), n)
            return n

    return R().visit(copy.deepcopy(expr))


# ----------------------------------------------------------------------------- helpers
def resolved_keywords(fv, call):
    """{keyword: value text}; ``**name`` is expanded when ``name`` is a local dict literal"""
    out = {}
    for k in call.keywords:
        if k.arg is not None:
            out[k.arg] = U(fv.expand(k.value, call))
        else:
            v = fv.expand(k.value, call, allow_mutated=True)
            if isinstance(v, ast.Dict) and all(isinstance(x, ast.Constant) for x in v.keys):
                for kk, vv in zip(v.keys, v.values):
                    out[kk.value] = U(vv)
            elif isinstance(v, ast.Call) and dotted(v.func) == "dict" and not v.args:
                for kk in v.keywords:
                    out[kk.arg] = U(kk.value)
            else:
                out["**"] = U(v)
    return out


def emptiness(decisions, name):
    """True: the decisions establish that ``name`` is empty; False: non-empty; None: unknown"""
    from .empty import nonempty_guard

    for k, v in decisions.items():
        try:
            t = ast.parse(k, mode="eval").body
        except SyntaxError:
            continue
        if nonempty_guard(t, name, v):
            return False
        if not isinstance(t, ast.BoolOp) and nonempty_guard(t, name, not v):
            return True
    return None


# ----------------------------------------------------------------------------- removal loops
def check_safe_removal(ctx, qual, attr_test, op_types=(ast.LtE,), what="", param=None, rule="REMOVE"):
    """for i in reversed(range(len(self))): if self[i].<attr> <= limit: self.pop(i)"""
    m = ctx.model
    fi = m.func(qual)
    fv = view(m, fi)
    si = stmt_index(fv)
    site = fi.qualname
    pops = [c for c in fv.calls() if isinstance(c.func, ast.Attribute) and c.func.attr == "pop" and U(c.func.value) == "self"]
    others = _self_mutations(fi)
    for mc in pops + [o for o in others if isinstance(o, ast.Call)]:
        lpq_ = si.enclosing(mc, (ast.For,))
        if lpq_ is not None and U(lpq_[0].iter) in ("self", "enumerate(self)", "iter(self)"):
            ctx.violate(rule, site, (fi, lpq_[0]), f"`{U(mc)[:40]}` removes members while iterating forward over the list itself (`{U(lpq_[0].iter)}`): the member after every removed one is skipped, so adjacent candidates for removal survive")
            return
    # rebuilt in one go: `self[:] = [x for x in self if KEEP]` keeps the same objects in the same order; KEEP must be the exact
    # complement of the documented removal condition (attr <= limit): attr > limit
    rebuild = [s_ for s_ in fv.statements() if isinstance(s_, ast.Assign) and len(s_.targets) == 1 and isinstance(s_.targets[0], ast.Subscript) and U(s_.targets[0]) == "self[:]"
               and isinstance(s_.value, ast.ListComp) and len(s_.value.generators) == 1 and U(s_.value.generators[0].iter) == "self"]
    if not pops and len(rebuild) == 1 and ast.LtE in op_types and param is not None:
        from ..astutil import canon_tests as _ct

        g_ = rebuild[0].value.generators[0]
        var_ = U(g_.target)
        keep = set()
        for t_ in g_.ifs:
            keep.update(_ct(t_, True))
        want_keep = {(f"{param} < {var_}.{attr_test}", True)}
        alt_keep = {(f"{var_}.{attr_test} <= {param}", False)}  # `not x.attr <= limit` (differs for NaN, which the popping loop keeps as well)
        same_elt = U(rebuild[0].value.elt) == var_
        ctx.decide(same_elt and keep in (want_keep, alt_keep), rule, site, (fi, rebuild[0]), f"members are kept iff not ({what})",
                   f"the list is rebuilt keeping members with {sorted(keep)}: that is not the complement of the documented removal condition `{what}` (members exactly at the limit are "
                   "kept although they must be removed, or the other way round)")
        return
    if others or len(pops) != 1:
        # a different (e.g. comprehension based) implementation: not judged by this rule
        if others:
            ctx.undecided(rule, site, (fi, others[0]), "the list is rebuilt rather than popped: removal-loop rule not applicable")
        else:
            ctx.violate(rule, site, fi, f"expected exactly one self.pop(index) in the removal loop, found {len(pops)}")
        return
    c = pops[0]
    lpq = si.enclosing(c, (ast.For,))
    if lpq is None:
        ctx.violate(rule, site, (fi, c), "elements are popped outside an index loop")
        return
    lp = lpq[0]
    iv = U(lp.target)
    rev = U(lp.iter).replace(" ", "") in ("reversed(range(len(self)))", "range(len(self)-1,-1,-1)", "range(len(self))[::-1]")
    okidx = U(c.args[0]) == iv if c.args else False
    conds = []
    for t, p in si.effective_guards(c):
        if any(x is t for x in ast.walk(lp)):
            for a, q in flat_tests(t, p):
                cp = compare_parts(a)
                if cp is not None:
                    conds.append((U(fv.expand(cp[0], c, allow_mutated=True, stop=(iv,))), type(cp[1]), U(cp[2]), q))
    okt = len(conds) == 1 and conds[0][0] == f"self[{iv}].{attr_test}" and conds[0][3] and conds[0][1] in op_types and (param is None or conds[0][2] == param)
    detail = f"iteration `{U(lp.iter)}`, removal condition {[(a, o.__name__, b, q) for a, o, b, q in conds]}"
    if not rev:
        ctx.violate(rule, site, (fi, lp), f"elements are popped while iterating `{U(lp.iter)}` (not back to front): every removal shifts the following elements, so the element after a removed one is skipped")
    else:
        ctx.decide(okt and okidx, rule, site, (fi, lp), f"members are visited from the back and removed iff {what}",
                   f"removal condition is not `{what}`: {detail} — a different comparison removes or keeps the boundary cases")


# ----------------------------------------------------------------------------- C20
OWNERS = {
    f"{EM}.Emulsion.append": ("super()", "append"),
    f"{EM}.EmulsionTimeCourse.append": ("self.emulsions", "append"),
    f"{TR}.DropletTrack.append": ("self.droplets", "append"),
}
BACKING = {"emulsions", "droplets", "times", "length_scales"}


def check_who_may_store(ctx):
    """primitive stores into backing lists only inside the owner methods / constructors"""
    m = ctx.model
    bad = []
    n = 0
    allowed_funcs = set(OWNERS) | {f"{EM}.EmulsionTimeCourse.__init__", f"{EM}.EmulsionTimeCourse.clear", f"{TR}.DropletTrack.__init__",
                                   "droplets.trackers.LengthScaleTracker.__init__", "droplets.trackers.LengthScaleTracker.handle"}
    # private helpers that no code refers to any more have been inlined at their (only) call sites by the normaliser: their
    # statements are judged there, as part of the calling owner method
    referenced = set()
    for mod in m.modules.values():
        for x in ast.walk(mod.tree):
            if isinstance(x, ast.Attribute):
                referenced.add(x.attr)
            elif isinstance(x, ast.Name):
                referenced.add(x.id)
    for fi in m.all_functions():
        if fi.name.startswith("_") and not fi.name.startswith("__") and fi.name not in referenced:
            continue
        for s in ast.walk(fi.node):
            if isinstance(s, ast.Call) and isinstance(s.func, ast.Attribute) and s.func.attr in MUTATORS and isinstance(s.func.value, ast.Attribute) and s.func.value.attr in BACKING:
                n += 1
                if fi.qualname not in allowed_funcs:
                    bad.append((fi, s))
            tg = s.targets if isinstance(s, ast.Assign) else ([s.target] if isinstance(s, ast.AugAssign) else [])
            for t in tg:
                base = t.value if isinstance(t, ast.Subscript) else t
                if isinstance(base, ast.Attribute) and base.attr in BACKING:
                    n += 1
                    if fi.qualname not in allowed_funcs and not (fi.name == "__init__"):
                        bad.append((fi, s))
            if isinstance(s, ast.Call) and U(s.func) in ("list.append", "list.extend", "list.insert", "list.__setitem__", "super().extend", "super().insert", "super().__setitem__", "super().__iadd__"):
                n += 1
                bad.append((fi, s))
    ctx.decide(not bad, "OWN", "package:who-may-store", (bad[0][0], bad[0][1]) if bad else None,
               f"all {n} stores into the backing lists (emulsions, droplets, times) happen in the owner methods",
               f"`{U(bad[0][1])[:70] if bad else ''}` in {bad[0][0].qualname if bad else ''} writes a collection's backing list directly, bypassing copy-on-insert / lock-step bookkeeping")


def _default_true(fi, name="copy"):
    d = fi.default_of(name)
    return isinstance(d, ast.Constant) and d.value is True


def check_copy_on_insert(ctx):
    m = ctx.model
    # ---- Emulsion.append
    fi = m.func(f"{EM}.Emulsion.append")
    fv = view(m, fi)
    dp = fi.params[1]
    st = [c for c in fv.calls() if U(c.func) == "super().append"]
    ok, detail = False, "no store through super().append"
    if len(st) == 1 and _default_true(fi):
        cases = value_cases(fv, st[0], st[0].args[0])
        t_vals = {U(v) for d, v in cases if truth_of(d, "copy") is True}
        f_vals = {U(v) for d, v in cases if truth_of(d, "copy") is False}
        ok = t_vals == {f"{dp}.copy()"} and f_vals <= {dp}
        detail = f"stored value with copy=True: {sorted(t_vals)}, with copy=False: {sorted(f_vals)}"
    ctx.decide(ok, "OWN", fi.qualname, (fi, st[0]) if st else fi, "with copy=True (the default) the stored droplet is droplet.copy()",
               f"Emulsion.append does not store `{dp}.copy()` whenever copy is true (default True): {detail}")
    # ---- forwarders
    for q, callee in ((f"{EM}.Emulsion.extend", "self.append"), (f"{EM}.Emulsion.__init__", "self.extend")):
        g = m.func(q)
        gv = view(m, g)
        cs = [c for c in gv.calls() if U(c.func) == callee]
        ok = False
        if len(cs) == 1:
            kws = resolved_keywords(gv, cs[0])
            ok = kws.get("copy") == "copy" and kws.get("force_consistency") == "force_consistency" and _default_true(g)
        ctx.decide(ok, "OWN", q, (g, cs[0]) if cs else g, f"forwards copy= and force_consistency= to {callee}; copy defaults to True",
                   f"{q.split('.')[-2]}.{g.name} does not forward copy=copy / force_consistency=force_consistency to {callee} with copy defaulting to True")
    # ---- EmulsionTimeCourse.append
    fi = m.func(f"{EM}.EmulsionTimeCourse.append")
    fv = view(m, fi)
    ep = fi.params[1]
    st = [c for c in fv.calls() if U(c.func) == "self.emulsions.append"]
    ok, detail = False, "no store"
    if len(st) == 1 and _default_true(fi):
        cases = value_cases(fv, st[0], st[0].args[0])
        t_vals = {U(v) for d, v in cases if truth_of(d, "copy") is True}
        f_vals = {U(v) for d, v in cases if truth_of(d, "copy") is False}
        ok = t_vals == {f"Emulsion({ep}).copy()"} and f_vals <= {f"Emulsion({ep})"}
        detail = f"copy=True: {sorted(t_vals)}, copy=False: {sorted(f_vals)}"
    ctx.decide(ok, "OWN", fi.qualname, (fi, st[0]) if st else fi, "stores Emulsion(emulsion) (a fresh emulsion of copies), copied again when copy=True",
               f"EmulsionTimeCourse.append does not store a fresh Emulsion(emulsion) (default copying): {detail}")
    # ---- DropletBase.copy / from_droplet
    fi = m.func(f"{DROP}.DropletBase.copy")
    fv = view(m, fi)
    vals = set()
    for n_ in fv.return_nodes():
        for d, v in value_cases(fv, n_.stmt, n_.stmt.value):
            vals.add(U(v))
    ok = vals == {"self.from_droplet(self, **kwargs)", "self.from_data(self.data.copy())"}
    ctx.decide(ok, "OWN", fi.qualname, fi, "a droplet copy wraps self.data.copy()", f"DropletBase.copy returns {sorted(vals)}: copies must wrap a copy of the data record (or be rebuilt through the constructor)")
    fd = m.func(f"{DROP}.DropletBase.from_droplet")
    fdv = view(m, fd)
    rets = [n_.stmt for n_ in fdv.return_nodes()]
    ok = False
    if len(rets) == 1 and isinstance(rets[0].value, ast.Call) and U(rets[0].value.func) == "cls" and len(rets[0].value.keywords) == 1 and rets[0].value.keywords[0].arg is None:
        av = rets[0].value.keywords[0].value
        an = U(av)
        kwn = fd.kwarg or "kwargs"
        srcv = f"{fd.params[1]}._args"
        if isinstance(av, ast.Dict) and all(k is None for k in av.keys) and [U(v) for v in av.values] == [srcv, kwn]:
            ok = True  # cls(**{**droplet._args, **kwargs})
        else:
            src = [s for s in fdv.statements() if isinstance(s, (ast.Assign, ast.AnnAssign)) and s.value is not None
                   and U(s.targets[0] if isinstance(s, ast.Assign) else s.target) == an and U(s.value) == srcv]
            upd = [c for c in fdv.calls() if U(c.func) == f"{an}.update" and [U(a) for a in c.args] == [kwn] and not c.keywords]
            # explicit store loop: for k, v in kwargs.items(): args[k] = v
            for lp in fdv.statements():
                if isinstance(lp, ast.For) and U(lp.iter) == f"{kwn}.items()" and isinstance(lp.target, ast.Tuple) and len(lp.target.elts) == 2 and len(lp.body) == 1:
                    b0 = lp.body[0]
                    kv, vv = (U(e) for e in lp.target.elts)
                    if isinstance(b0, ast.Assign) and U(b0.targets[0]) == f"{an}[{kv}]" and U(b0.value) == vv:
                        upd.append(lp)
            others = [c for c in fdv.calls() if isinstance(c.func, ast.Attribute) and U(c.func.value) == an and c.func.attr in ("pop", "clear", "popitem", "setdefault") ]
            ok = len(src) == 1 and len(upd) == 1 and not others
    ctx.decide(ok, "OWN", fd.qualname, fd, "from_droplet re-creates the droplet through the constructor from the source's fields, overridden by the keyword arguments",
               "from_droplet does not build cls(**{fields of the source, updated by kwargs})")


def _emulsion_ctor_returns(fv):
    out = []
    for n_ in fv.return_nodes():
        for d, v in value_cases(fv, n_.stmt, n_.stmt.value):
            if isinstance(v, ast.Call) and (dotted(v.func) or "").split(".")[-1] in ("Emulsion", "__class__"):
                out.append((n_.stmt, v))
    return out


def check_fresh_derivations(ctx):
    m = ctx.model
    for q, desc in ((f"{EM}.Emulsion.__getitem__", "slice"), (f"{EM}.Emulsion.__add__", "sum")):
        fi = m.funcs(q)[-1]
        fv = view(m, fi)
        rets = _emulsion_ctor_returns(fv)
        ok = len({U(v) for _, v in rets}) == 1 and all(len(v.args) == 1 and not [k for k in v.keywords if k.arg == "copy"] for _, v in rets)
        ctx.decide(ok, "FRESH", q, (fi, rets[0][0]) if rets else fi, f"a {desc} is a new Emulsion built with the default copy=True",
                   f"the {desc} of an emulsion is `{U(rets[0][1]) if rets else '?'}`: it shares the droplet objects with its source (copy disabled), so editing the {desc} changes the source")
    # Emulsion.copy
    fi = m.func(f"{EM}.Emulsion.copy")
    fv = view(m, fi)
    rets = [n_.stmt for n_ in fv.return_nodes()]
    ok = False
    if len(rets) == 1 and isinstance(rets[0].value, ast.Call) and rets[0].value.args:
        c = rets[0].value
        a0 = c.args[0]
        cflag = kwarg(c, "copy")
        elems_copied = False
        src = fv.expand(a0, rets[0])
        if isinstance(src, ast.ListComp) and U(src.elt).endswith(".copy()") and U(src.generators[0].iter) == "self" and U(src.elt) == f"{U(src.generators[0].target)}.copy()":
            elems_copied = True
        elif isinstance(a0, ast.Name):
            apps = [x for x in fv.calls() if U(x.func) == f"{a0.id}.append"]
            lps = [stmt_index(fv).enclosing(x, (ast.For,)) for x in apps]
            elems_copied = len(apps) == 1 and lps[0] is not None and U(lps[0][0].iter) == "self" and U(apps[0].args[0]) == f"{U(lps[0][0].target)}.copy()"
        ok = U(c.func) in ("self.__class__", "Emulsion", "type(self)") and (elems_copied or cflag is None or (isinstance(cflag, ast.Constant) and cflag.value is True))
    ctx.decide(ok, "FRESH", fi.qualname, (fi, rets[0]) if rets else fi, "Emulsion.copy holds copies of every droplet",
               "Emulsion.copy returns an emulsion that shares droplet objects with the original")
    # slices of time courses / tracks
    for q, members in ((f"{EM}.EmulsionTimeCourse.__getitem__", "emulsions"), (f"{TR}.DropletTrack.__getitem__", "droplets")):
        fi = m.func(q)
        fv = view(m, fi)
        key = fi.params[1]
        got = []
        for n_ in fv.return_nodes():
            for d, v in value_cases(fv, n_.stmt, n_.stmt.value):
                if truth_of(d, f"isinstance({key}, slice)") is True:
                    got.append((n_.stmt, v))
        ok = bool(got)
        for st_, v in got:
            okv = isinstance(v, ast.Call) and U(v.func) in ("self.__class__", "type(self)")
            if okv:
                a = kwarg(v, members) or (v.args[0] if v.args else None)
                t = kwarg(v, "times") or (v.args[1] if len(v.args) > 1 else None)
                okv = a is not None and U(a) in (f"self.{members}.__getitem__({key})", f"self.{members}[{key}]") and t is not None and U(t) == f"self.times[{key}]"
            ok = ok and okv
        ctx.decide(ok, "FRESH", q, (fi, got[0][0]) if got else fi, "slices are rebuilt through the constructor (members copied, times sliced with the same key)",
                   "a slice is not self.__class__(members=self.<members>[key], times=self.times[key]): members and times can get out of step or be shared")
    # constructors own their lists
    for q, members, mparam in ((f"{EM}.EmulsionTimeCourse.__init__", "emulsions", "emulsions"), (f"{TR}.DropletTrack.__init__", "droplets", "droplets")):
        fi = m.func(q)
        fv = view(m, fi)
        si = stmt_index(fv)
        tstores = [s for s in fv.statements() if isinstance(s, ast.Assign) and U(s.targets[0]) == "self.times"]
        from ..astutil import ifexp_cases as _ifc

        allowed = ("[]", "list(times)", f"list(range(len(self.{members})))")
        bad, n_vals = [], 0
        for s in tstores:
            # every alternative of the stored value (branches or a conditional expression) is a list of the constructor's own
            for _c, v_ in _ifc(fv.expand(s.value, s)):
                n_vals += 1
                if U(v_) not in allowed:
                    bad.append((s, U(v_)))
        ctx.decide(not bad and n_vals >= 2, "FRESH", q + ":times", (fi, bad[0][0]) if bad else fi, "the constructor stores its own list of times (list(times))",
                   f"`{U(bad[0][0]) if bad else ''}`: the constructor keeps the caller's/source's list of times by reference; appending to a copy then changes the source's times but not its members (lengths diverge)")
        mstores = [s for s in fv.statements() if isinstance(s, ast.Assign) and U(s.targets[0]) == f"self.{members}"]
        badm = [s for s in mstores if U(s.value) != "[]"]
        adds = [c for c in fv.calls() if U(c.func) == "self.append"]
        okadd = False
        if len(adds) == 1:
            lpq = si.enclosing(adds[0], (ast.For,))
            if lpq is not None and U(lpq[0].iter) in (mparam, f"{mparam} or ()", f"{mparam} or []"):
                arg = U(fv.expand(adds[0].args[0], adds[0]))
                lv = U(lpq[0].target)
                okadd = arg in (lv, f"Emulsion({lv})")
        ctx.decide(not badm and okadd, "FRESH", q + ":members", (fi, badm[0]) if badm else fi, "every given member is added through append (copies), in order",
                   "the constructor does not add every given member through self.append (copy on insert)")
        # length check: a ValueError raised exactly when the two lengths differ, on every path, after the last store
        from ..astutil import canon_tests, canon_want, _may_precede

        okc, where = False, fi.node.body[-1]
        want_c = canon_want((f"len(self.times) != len(self.{members})", True))
        want_c2 = canon_want((f"len(self.{members}) != len(self.times)", True))
        for r_ in fv.statements():
            if isinstance(r_, ast.Raise) and r_.exc is not None and "ValueError" in U(r_.exc):
                conds = set()
                tests = []
                for t_, p_ in si.effective_guards(r_):
                    conds.update(canon_tests(fv.expand(t_, r_, allow_mutated=True), p_))
                    tests.append(t_)
                if conds in (want_c, want_c2) and tests:
                    tst = si.statement(tests[-1]) or r_
                    stores_after = [s_ for s_ in tstores + mstores if s_ is not tst and _may_precede(fv, tst, s_)]
                    okc = not stores_after and fv.post_dominates(tst, fv.body[0])
                    where = r_
        ctx.decide(okc, "PAIR", q, (fi, where), "constructor rejects times and members of different length (ValueError) after both are set",
                   "the constructor does not end with a length check of times against members raising ValueError")


def check_pair_methods(ctx):
    m = ctx.model
    fi = m.func(f"{EM}.EmulsionTimeCourse.append")
    fv = view(m, fi)
    a = [c for c in fv.calls() if U(c.func) == "self.emulsions.append"]
    b = [c for c in fv.calls() if U(c.func) == "self.times.append"]
    tp = fi.params[2]
    from ..astutil import count_on_normal_paths

    ok = len(a) == 1 and len(b) == 1 and fv.post_dominates(b[0], a[0]) and count_on_normal_paths(fv, [a[0]]) == {1} and count_on_normal_paths(fv, [b[0]]) == {1}
    ctx.decide(ok, "PAIR", fi.qualname, (fi, b[0]) if b else fi, "one emulsion and one time are appended on every path that does not raise",
               "EmulsionTimeCourse.append does not append exactly one emulsion and one time on every path: some call returns without adding a frame (e.g. it overwrites the last "
               "frame when the time repeats), so a file with repeated time stamps reads back with fewer frames than were written")
    if b:
        _check_default_time(ctx, fi, fv, b[0], tp)
    fi = m.func(f"{EM}.EmulsionTimeCourse.clear")
    st = {U(s.targets[0]): U(s.value) for s in ast.walk(fi.node) if isinstance(s, ast.Assign)}
    ctx.decide(st == {"self.emulsions": "[]", "self.times": "[]"}, "PAIR", fi.qualname, fi, "clear() resets both lists",
               f"clear() resets {st}: times and emulsions must both become empty")
    for q, want in ((f"{EM}.EmulsionTimeCourse.__len__", "len(self.times)"), (f"{TR}.DropletTrack.__len__", "len(self.times)")):
        g = m.func(q)
        rets = [s for s in ast.walk(g.node) if isinstance(s, ast.Return)]
        ctx.decide(len(rets) == 1 and U(rets[0].value) in (want, want.replace("times", "emulsions"), want.replace("times", "droplets")), "PAIR", q, g, "length of the paired lists",
                   f"__len__ returns {U(rets[0].value) if rets else '?'}")


def _check_default_time(ctx, fi, fv, store_call, tp):
    """time given → stored as given; time None → 0 for the first member, last + 1 afterwards"""
    got = set()
    for d, v in value_cases(fv, store_call, store_call.args[0], stop=()):
        isnone = truth_of(d, f"{tp} is None")
        empty = emptiness(d, "self.times")
        got.add((isnone, empty, U(v).replace(" ", "")))
    ok_given = all(v == tp for isnone, e, v in got if isnone is False) and any(isnone is False for isnone, e, v in got)
    none_cases = {(e, v) for isnone, e, v in got if isnone is True}
    ok_default = none_cases == {(True, "0"), (False, "self.times[-1]+1")}
    ctx.decide(ok_given and ok_default, "PAIR", fi.qualname + ":default-time", (fi, store_call),
               "an explicit time is stored as given; a missing time continues the sequence (0, then last + 1)",
               f"stored time cases (time is None, times empty, value): {sorted(got, key=str)}; expected the given time, or 0 for the first / last + 1 for later members exactly when time is None")


def check_reject(ctx):
    m = ctx.model
    for q, store, want in ((f"{EM}.Emulsion.append", "super().append", "dtype"), (f"{TR}.DropletTrack.append", "self.droplets.append", "dim")):
        fi = m.func(q)
        fv = view(m, fi)
        si = stmt_index(fv)
        dp = fi.params[1]
        st = [c for c in fv.calls() if U(c.func) == store]
        raises = [s for s in fv.statements() if isinstance(s, ast.Raise) and s.exc is not None and "ValueError" in U(s.exc)]
        ok = False
        where = fi
        for r in raises:
            conds = set()
            for t, p in si.effective_guards(r):
                for a, q_ in flat_tests(t, p):
                    conds.add((U(fv.expand(a, r)), q_))
            if want == "dtype":
                need = ({("force_consistency", True)}, {(f"self.dtype != {dp}.data.dtype", True), (f"{dp}.data.dtype != self.dtype", True)})
            else:
                need = ({("self.dim is not None", True)}, {(f"{dp}.dim != self.dim", True), (f"self.dim != {dp}.dim", True)})
            if (need[0] <= conds) and (need[1] & conds):
                top = r
                anc = si.ancestors(r)
                if anc:
                    top = anc[-1][0]
                where = r
                ok = bool(st) and fv.dominates(top, st[0])
        what = "with force_consistency a droplet of another data layout" if want == "dtype" else "a droplet of another space dimension"
        ctx.decide(ok, "REJECT", fi.qualname, (fi, where), f"{what} raises ValueError before it is stored",
                   f"{what} is not rejected with ValueError before the store")


def check_linked_data(ctx):
    m = ctx.model
    fi = m.func(f"{EM}.Emulsion.get_linked_data")
    fv = view(m, fi)
    rets = [n_.stmt for n_ in fv.return_nodes()]
    arr = U(rets[0].value) if len(rets) == 1 else None
    src = [s for s in fv.statements() if isinstance(s, ast.Assign) and U(s.targets[0]) == arr and U(s.value) == "self.data"]
    loops = [s for s in fv.statements() if isinstance(s, ast.For)]
    ok_link = False
    as_record = None
    if len(loops) == 1 and len(loops[0].body) == 1 and isinstance(loops[0].body[0], ast.Assign):
        lp = loops[0]
        st = lp.body[0]
        tgt = U(st.targets[0])
        # the bound row, with temporaries resolved: <arr>[i] or <arr>.view(np.recarray)[i]
        val = U(fv.expand(st.value, st, stop=(arr or "",))).replace(" ", "")
        plain, rec = f"{arr}[%s]", (f"{arr}.view(np.recarray)[%s]", f"{arr}.view(type=np.recarray)[%s]", f"np.rec.array({arr},copy=False)[%s]")
        i = d = None
        if U(lp.iter) == "enumerate(self)" and isinstance(lp.target, ast.Tuple):
            i, d = (U(e) for e in lp.target.elts)
            want_t = f"{d}.data"
        elif U(lp.iter) == "range(len(self))":
            i = U(lp.target)
            want_t = f"self[{i}].data"
        if i is not None:
            ok_link = tgt == want_t and (val == plain % i or val in [r % i for r in rec])
            if ok_link:
                as_record = val != plain % i
    ctx.decide(len(src) == 1 and ok_link, "LINK", fi.qualname, fi, "row i of the returned array becomes the storage of member i",
               "get_linked_data does not bind member i to row i of the single array it returns")
    if as_record is not None:
        # numpy contract: a row of a plain structured ndarray is a numpy.void (item access only) unless the dtype object itself carries
        # numpy.record, which np.array([...]) keeps only when all members share the identical dtype object; the merge kernels and the
        # setters of the droplet classes use attribute access on their record
        ctx.decide(as_record, "LINK", fi.qualname + ":record", fi, "members are bound to rows of a record-array view (attribute access works on them)",
                   "members are bound to rows of the plain structured array: for droplets created by separate constructor calls these rows are numpy.void objects without attribute access, "
                   "so `merge` (in place or not) raises AttributeError after get_linked_data — link data, then merge members is a sequence C20 names")


def check_order_free(ctx, quals=(f"{EM}.EmulsionTimeCourse.get_emulsion", f"{EM}.Emulsion.get_size_statistics", f"{EM}.Emulsion.total_droplet_volume", f"{TR}.DropletTrack.get_position")):
    """summary queries must not presuppose an ordering of the members"""
    m = ctx.model
    BANNED = {"searchsorted", "bisect", "bisect_left", "bisect_right", "insort", "digitize"}
    for q in quals:
        if not m.has_func(q):
            continue
        fi = m.func(q)
        bad = [c for c in ast.walk(fi.node) if isinstance(c, ast.Call) and (dotted(c.func) or "").split(".")[-1] in BANNED]
        ctx.decide(not bad, "ORDERFREE", q, (fi, bad[0]) if bad else fi, "no binary search / sortedness assumption over the members",
                   f"`{U(bad[0])[:60] if bad else ''}` presupposes sorted members: for a collection whose times are not monotonic (explicit out-of-order times, re-glued slices) the query no longer equals its definition over the members")


def _eval_radius_filter(t, radius_of, params):
    """value of the member filter ``t`` of Emulsion.copy for a concrete radius and concrete parameter values (IEEE semantics:
    every ordered comparison with NaN is False); None when a construct is not understood"""
    import math

    def ev(n):
        if isinstance(n, ast.Constant) and isinstance(n.value, (int, float, bool)):
            return n.value
        if isinstance(n, ast.Name) and n.id in params:
            return params[n.id]
        if isinstance(n, ast.Attribute) and n.attr == "radius":
            return radius_of
        if isinstance(n, ast.UnaryOp) and isinstance(n.op, ast.Not):
            v = ev(n.operand)
            return None if v is None else (not v)
        if isinstance(n, ast.UnaryOp) and isinstance(n.op, ast.USub):
            v = ev(n.operand)
            return None if v is None else -v
        if isinstance(n, ast.BoolOp):
            vs = [ev(v) for v in n.values]
            if any(v is None for v in vs):
                return None
            return all(vs) if isinstance(n.op, ast.And) else any(vs)
        if isinstance(n, ast.Call) and (dotted(n.func) or "").split(".")[-1] in ("isnan", "isfinite") and len(n.args) == 1:
            v = ev(n.args[0])
            if v is None:
                return None
            return math.isnan(v) if (dotted(n.func) or "").endswith("isnan") else math.isfinite(v)
        if isinstance(n, ast.Call) and (dotted(n.func) or "") in ("float", "bool") and len(n.args) == 1:
            return ev(n.args[0])
        if isinstance(n, ast.Compare):
            left = ev(n.left)
            res = True
            for op, c in zip(n.ops, n.comparators):
                right = ev(c)
                if left is None or right is None:
                    return None
                f = {ast.Gt: lambda a, b: a > b, ast.GtE: lambda a, b: a >= b, ast.Lt: lambda a, b: a < b, ast.LtE: lambda a, b: a <= b,
                     ast.Eq: lambda a, b: a == b, ast.NotEq: lambda a, b: a != b}.get(type(op))
                if f is None:
                    return None
                res = res and f(left, right)
                left = right
            return res
        return None

    return ev(t)


def check_copy_total(ctx, rule="COPYALL"):
    """Emulsion.copy() with its defaults keeps every member: each filter on the way compares
    a member quantity with a defaulted parameter, and the default must make the filter vacuous
    for every radius a droplet can hold — all radii ≥ 0 and NaN, which the constructor and the radius setter accept
    (`value < 0` is False for NaN) and the dataset writers store.  Readers of time courses and EmulsionTimeCourse.append
    copy frames with the defaults; a zero-radius droplet and a droplet whose radius is not a number must survive.
    The filter is evaluated as a truth table over concrete radii (IEEE comparison semantics), not by its spelling."""
    m = ctx.model
    fi = m.func(f"{EM}.Emulsion.copy")
    fv = view(m, fi)
    site = fi.qualname + ":default-filter"
    tests = []
    for n in ast.walk(fi.node):
        if isinstance(n, ast.comprehension):
            tests += [(n, t) for t in n.ifs]
        elif isinstance(n, ast.If) and any(isinstance(x, (ast.Continue,)) or (isinstance(x, ast.Expr) and "append" in U(x)) for x in ast.walk(n)):
            tests.append((n, n.test))
    if not tests:
        ctx.hold(rule, site, fi, "Emulsion.copy does not filter members")
        return
    verdict, where, msg = True, None, ""
    for holder, t in tests:
        t = fv.expand(t) if hasattr(fv, "expand") else t
        used = [p for p in fi.params if p in names_in(t)]
        params = {}
        for p in used:
            d = fi.default_of(p)
            val = None
            if isinstance(d, ast.Constant) and isinstance(d.value, (int, float)):
                val = d.value
            elif isinstance(d, ast.UnaryOp) and isinstance(d.op, ast.USub) and isinstance(d.operand, ast.Constant):
                val = -d.operand.value
            elif d is not None and U(d) in ("-np.inf", "-math.inf", "float('-inf')"):
                val = float("-inf")
            if val is None:
                verdict, where, msg = None, t, f"default of `{p}` is not a number"
                break
            params[p] = val
        if verdict is None:
            break
        if not used:
            verdict, where, msg = None, t, f"filter `{U(t)[:50]}` not understood"
            break
        inverted = isinstance(holder, ast.If) and any(isinstance(x, ast.Continue) for x in ast.walk(holder))
        table = {}
        for label, r in (("0", 0.0), ("a positive number", 1.5), ("NaN", float("nan"))):
            v = _eval_radius_filter(t, r, params)
            if v is None:
                verdict, where, msg = None, t, f"filter `{U(t)[:50]}` not understood"
                break
            table[label] = (not v) if inverted else bool(v)
        if verdict is None:
            break
        dropped = [k for k, kept in table.items() if not kept]
        if dropped:
            verdict, where = False, t
            dv = ", ".join(f"{p}={v}" for p, v in params.items())
            msg = (f"Emulsion.copy() keeps a member only if `{U(t)}` and the default is {dv}: a droplet of radius {' / '.join(dropped)} is dropped by a plain copy "
                   "(EmulsionTimeCourse.append and the file reader copy frames with the defaults, so a stored frame loses such droplets: "
                   "the constructor accepts them, the writer stores their rows, and the file reads back with fewer droplets)")
            break
        where = t
    if verdict is True:
        ctx.hold(rule, site, (fi, where), "with the default bound every member (radius ≥ 0 or NaN) passes the filter of Emulsion.copy")
    elif verdict is False:
        ctx.violate(rule, site, (fi, where), msg)
    else:
        ctx.undecided(rule, site, (fi, where), msg)
    # callers on the storage path pass no bound
    for q in (f"{EM}.EmulsionTimeCourse.append",):
        ci = m.func(q)
        cv = view(m, ci)
        calls = [c for c in cv.calls() if isinstance(c.func, ast.Attribute) and c.func.attr == "copy" and isinstance(c.func.value, ast.Name) and c.func.value.id != "self"]
        bad = [c for c in calls if c.args or c.keywords]
        if calls:
            ctx.decide(not bad, rule, q + ":copy-args", (ci, (bad or calls)[0]), "frames are copied with the default (vacuous) bound",
                       f"`{U(bad[0]) if bad else ''}` filters the members of a frame while it is stored")


def _member_attr_collection(v, fv=None, at=None):
    """(attribute, filter texts, member var) when ``v`` is `[m.attr for m in self if …]` (list/generator/np.array of it), also
    when the members are first selected into a sub-list of self (`selected = [m for m in self if …]`) that is then iterated"""
    if isinstance(v, ast.Call) and (dotted(v.func) or "").split(".")[-1] in ("array", "asarray", "list", "tuple", "fromiter") and v.args:
        v = v.args[0]
    if isinstance(v, (ast.ListComp, ast.GeneratorExp)) and len(v.generators) == 1 and isinstance(v.generators[0].target, ast.Name):
        g = v.generators[0]
        mv = g.target.id
        pre = []
        src_ok = U(g.iter) == "self"
        if not src_ok and fv is not None and isinstance(g.iter, ast.Name) and at is not None:
            from ..astutil import filtered_collection_defs

            fcs = filtered_collection_defs(fv, g.iter.id, at)
            if fcs and all(fc[0] == "self" for fc in fcs):
                src_ok = True
                alts = [sorted(([fc[1].replace("_", mv)] if fc[1] is not None else []) + [U(t) for t in g.ifs]) for fc in fcs]
                if isinstance(v.elt, ast.Attribute) and isinstance(v.elt.value, ast.Name) and v.elt.value.id == mv:
                    return v.elt.attr, alts[0], mv, alts
        if src_ok and isinstance(v.elt, ast.Attribute) and isinstance(v.elt.value, ast.Name) and v.elt.value.id == mv:
            return v.elt.attr, sorted(pre + [U(t) for t in g.ifs]), mv
    return None


def check_statistics(ctx, rule="STAT"):
    """Summary queries are reductions over the members' *own* properties: the size statistics take every member's `.radius`
    and `.volume` (perturbed droplets and members of another dimension have volumes that are not the sphere formula of their
    radius), with one filter for both lists; the total volume sums every member's `.volume`."""
    m = ctx.model
    fi = m.func(f"{EM}.Emulsion.get_size_statistics")
    fv = view(m, fi)
    site = fi.qualname
    from ..astutil import dict_items, filtered_collection

    rets = []
    for n in fv.return_nodes():
        if n.stmt.value is None:
            continue
        items = dict_items(fv, n.stmt.value, n.stmt)
        if items:
            # entries computed into temporaries first (`volume_mean, volume_std = np.mean(v), np.std(v)`)
            for k_, v_ in list(items.items()):
                if isinstance(v_, ast.Name):
                    r_ = fv.single_def_value(v_.id, n)
                    if r_ is not None and isinstance(r_[0], ast.Call) and not (set(names_in(r_[0])) & fv.mutated):
                        items[k_] = r_[0]
        if items and isinstance(items.get("volume_mean"), ast.Call):
            rets.append((n, items))
    if len(rets) != 1:
        ctx.undecided(rule, site, fi, "result dictionary with 'volume_mean' not found")
    else:
        rn, d = rets[0]
        want = {"radius_mean": ("radius", "mean"), "radius_std": ("radius", "std"), "volume_mean": ("volume", "mean"), "volume_std": ("volume", "std")}
        filt_by_attr = {}
        for key, (attr, red) in want.items():
            v = d.get(key)
            if not (isinstance(v, ast.Call) and (dotted(v.func) or "").split(".")[-1] in (red, "nan" + red) and v.args):
                ctx.undecided(rule, f"{site}:{key}", (fi, rn.stmt), f"entry is not np.{red}(<collection>)")
                continue
            if (dotted(v.func) or "").split(".")[-1] != red or any(k.arg in ("ddof", "weights", "axis") for k in v.keywords):
                ctx.violate(rule, f"{site}:{key}", (fi, v), f"`{U(v)[:60]}` is not the plain {red} over the members")
                continue
            src = v.args[0]
            defs = []
            if isinstance(src, ast.Name):
                for dn in fv.defs_reaching(src.id, rn):
                    val = fv.value_of_def(dn, src.id) if dn.stmt is not None else None
                    defs.append((dn, val))
            else:
                defs.append((rn, src))
            bad = None
            n_ok = 0
            # a list filled by a loop over the members: empty initialisation + appending loop ≡ comprehension
            if isinstance(src, ast.Name) and any(isinstance(val, ast.List) and not val.elts for _d, val in defs if val is not None):
                from ..astutil import loop_as_comprehension

                comps = [loop_as_comprehension(lp_, src.id) for lp_ in fv.statements() if isinstance(lp_, ast.For)]
                comps = [c_ for c_ in comps if c_ is not None]
                if len(comps) == 1:
                    defs = [(rn, comps[0])]
            for dn, val in defs:
                r = _member_attr_collection(val, fv, dn.stmt if getattr(dn, 'stmt', None) is not None else rn.stmt) if val is not None else None
                if r is None:
                    # a filtered copy of a recognised collection (x = x[x > 0]) or anything else that is not the members' own property
                    bad = (dn.stmt if getattr(dn, "stmt", None) is not None else rn.stmt, "is not a collection of the members' own `." + attr + "`")
                elif r[0] != attr:
                    bad = (dn.stmt, f"collects `.{r[0]}` of the members, not `.{attr}`")
                else:
                    n_ok += 1
                    for alt in (r[3] if len(r) > 3 else [r[1]]):
                        filt_by_attr.setdefault(attr, set()).add((tuple(t.replace(r[2] + ".", "m.") for t in alt)))
            if bad:
                ctx.violate(rule, f"{site}:{key}", (fi, bad[0]), f"`{U(bad[0])[:80]}` {bad[1]}: the statistic no longer equals its definition over the members "
                            "(e.g. the volume of a perturbed droplet, or of a member of another dimension, is not the sphere volume of its radius)")
            elif n_ok:
                ctx.hold(rule, f"{site}:{key}", (fi, v), f"{red} over every member's own .{attr}")
        if "radius" in filt_by_attr and "volume" in filt_by_attr:
            ctx.decide(filt_by_attr["radius"] == filt_by_attr["volume"], rule, f"{site}:same-filter", (fi, rn.stmt), "radii and volumes are taken from the same members",
                       f"radii are filtered by {sorted(filt_by_attr['radius'])} but volumes by {sorted(filt_by_attr['volume'])}")
    q = f"{EM}.Emulsion.total_droplet_volume"
    if m.has_func(q):
        ti = m.func(q)
        r_ = [s_ for s_ in ast.walk(ti.node) if isinstance(s_, ast.Return) and s_.value is not None]
        if len(r_) == 1 and isinstance(r_[0].value, ast.Call) and (dotted(r_[0].value.func) or "").split(".")[-1] in ("sum", "fsum") and r_[0].value.args:
            c = _member_attr_collection(r_[0].value.args[0])
            ctx.decide(c is not None and c[0] == "volume" and not c[1], rule, q, (ti, r_[0]), "sum of every member's own .volume",
                       f"`{U(r_[0].value)[:70]}` is not the sum of every member's own .volume")
        else:
            ctx.undecided(rule, q, ti, "not a single sum(...)")


def check_trajectory_axis(ctx, rule="STAT"):
    """Smoothing a trajectory acts along time: the array is (time, component…), so every 1-d filter applied in DropletTrack
    names axis 0 (the library default, the last axis, would mix the coordinates of one time point instead)."""
    m = ctx.model
    q = f"{TR}.DropletTrack.get_trajectory"
    if not m.has_func(q):
        return
    fi = m.func(q)
    fv = view(m, fi)
    calls = [c for c in fv.calls() if (fv.callee(c) or U(c.func)).split(".")[-1] in ("gaussian_filter1d", "uniform_filter1d", "convolve1d", "correlate1d", "savgol_filter", "median_filter")]
    for k, c in enumerate(calls):
        ax = kwarg(c, "axis")
        if ax is None:
            from ..astutil import dict_items

            for k_ in c.keywords:
                if k_.arg is None:
                    items = dict_items(fv, k_.value, c)
                    if items and "axis" in items:
                        ax = items["axis"]
        ok = ax is not None and U(ax) == "0"
        ctx.decide(ok, rule, f"{q}:time-axis#{k}", (fi, c), "the filter runs along axis 0 (time)",
                   f"`{U(c)[:80]}` filters along {'axis ' + U(ax) if ax is not None else 'the default (last) axis'}: for vector attributes (position) the coordinates of one time point are mixed instead of smoothing over time")
    # a filter that acts on *all* axes of the (time, component…) array also blurs the components of one time point into each other
    nd = [c for c in fv.calls() if (fv.callee(c) or U(c.func)).split(".")[-1] in ("gaussian_filter", "uniform_filter", "convolve", "correlate", "generic_filter", "maximum_filter", "minimum_filter",
                                                                                "percentile_filter", "rank_filter", "gaussian_laplace", "gaussian_gradient_magnitude")]
    for k, c in enumerate(nd):
        axes = kwarg(c, "axes")
        sig = arg_or_kw(c, 1, "sigma")
        per_axis = sig is not None and isinstance(sig, (ast.Tuple, ast.List))  # (s, 0, …): explicit no-smoothing along the components
        ctx.decide((axes is not None and U(axes) in ("0", "(0,)", "[0]")) or per_axis, rule, f"{q}:time-axis#nd{k}", (fi, c), "the n-d filter is restricted to axis 0 (time)",
                   f"`{U(c)[:80]}` smooths along every axis of the trajectory array: for vector attributes (position in 2-d/3-d) the x, y, z values of one time point are averaged with each other, "
                   "so a droplet at rest appears displaced — the trajectory no longer equals its definition over the members")
    if not calls and not nd:
        ctx.undecided(rule, q, fi, "no 1-d filter found")


def check_self_alias_iteration(ctx, rule="ALIAS"):
    """A method that grows `self` while iterating over one of its parameters must iterate over a snapshot: the parameter may be
    the collection itself (`e.extend(e)`), and a list that is appended to while it is iterated never ends."""
    m = ctx.model
    n = 0
    for cname in ("Emulsion", "EmulsionTimeCourse", "DropletTrack", "DropletTrackList"):
        ci = m.cls(cname)
        for name, lst in ci.methods.items():
            if name in ("__init__", "__new__"):
                continue  # a new object cannot be its own argument
            for fi in lst:
                if fi.cls is not ci or isinstance(fi.node, ast.Lambda):
                    continue
                fv = view(m, fi)
                params = set(fi.all_params) - {"self", "cls"}
                for lp in [s_ for s_ in fv.statements() if isinstance(s_, ast.For)]:
                    it = fv.expand(lp.iter, lp)
                    if not (isinstance(it, ast.Name) and it.id in params):
                        continue
                    grows = [c for c in ast.walk(lp) if isinstance(c, ast.Call) and isinstance(c.func, ast.Attribute) and c.func.attr in ("append", "extend", "insert", "add")
                             and (U(c.func.value) == "self" or U(c.func.value).startswith("self.") or U(c.func.value) == "super()")]
                    if not grows:
                        continue
                    n += 1
                    ctx.violate(rule, f"{fi.qualname}:iterates-argument", (fi, lp),
                                f"`for {U(lp.target)} in {it.id}` appends to self while iterating over the argument itself: `x.{name}(x)` does not terminate (a list model doubles the "
                                "content); iterate over a snapshot (list(...)) of the argument")
                for lp in [s_ for s_ in fv.statements() if isinstance(s_, ast.For)]:
                    it = fv.expand(lp.iter, lp)
                    if isinstance(it, ast.Call) and U(it.func) in ("list", "tuple") and len(it.args) == 1 and isinstance(it.args[0], ast.Name) and it.args[0].id in params:
                        grows = [c for c in ast.walk(lp) if isinstance(c, ast.Call) and isinstance(c.func, ast.Attribute) and c.func.attr in ("append", "extend", "insert", "add")
                                 and (U(c.func.value) == "self" or U(c.func.value).startswith("self.") or U(c.func.value) == "super()")]
                        if grows:
                            n += 1
                            ctx.hold(rule, f"{fi.qualname}:iterates-argument", (fi, lp), "grows self while iterating over a snapshot of the argument")
    return n


def check_instance_containers(ctx, class_quals, rule="OWN"):
    """Every instance owns its containers: an attribute that the class' methods grow in place (`self.X.append(…)`) is bound to
    a container of its own — in `__init__` and in `clear()` — never to a class-level default (shared by all instances) nor to
    the very object another attribute is bound to (`self.a = self.b = []`)."""
    m = ctx.model
    n = 0
    MUT = {"append", "extend", "insert", "add", "update", "setdefault"}
    for cq in class_quals:
        ci = m.cls(cq.split(".")[-1])
        if ci is None:
            continue
        grown = {}
        for name, lst in ci.methods.items():
            for fi in lst:
                for c in ast.walk(fi.node):
                    if isinstance(c, ast.Call) and isinstance(c.func, ast.Attribute) and c.func.attr in MUT and isinstance(c.func.value, ast.Attribute) \
                            and isinstance(c.func.value.value, ast.Name) and c.func.value.value.id == "self":
                        grown.setdefault(c.func.value.attr, fi)
        for attr in sorted(grown):
            site = f"{ci.qualname}.{attr}:own-container"
            bad = None
            # (1) no mutable class-level default
            for st in ci.node.body:
                tgt = val = None
                if isinstance(st, ast.Assign) and len(st.targets) == 1 and isinstance(st.targets[0], ast.Name):
                    tgt, val = st.targets[0].id, st.value
                elif isinstance(st, ast.AnnAssign) and isinstance(st.target, ast.Name) and st.value is not None:
                    tgt, val = st.target.id, st.value
                if tgt == attr and (isinstance(val, (ast.List, ast.Dict, ast.Set, ast.ListComp, ast.DictComp, ast.SetComp)) or
                                    (isinstance(val, ast.Call) and U(val.func) in ("list", "dict", "set", "collections.deque", "deque", "defaultdict"))):
                    bad = (ci.node, st, f"`{U(st)[:60]}` is a class-level container: every instance that does not rebind `self.{attr}` grows the same object "
                           "(two trackers or collections in one process mix their records)")
            # (2) bound in __init__ on every path, (3) never to the object of another grown attribute
            binders = [fi for nm in ("__init__", "clear") for fi in ci.methods.get(nm, [])]
            init = m.method(ci, "__init__")
            if init is not None and init not in binders:
                binders.append(init)
            bound_in_init = False
            for fi in binders:
                fv = view(m, fi)
                stores = [s_ for s_ in fv.statements() if isinstance(s_, (ast.Assign, ast.AnnAssign)) and s_.value is not None
                          and any(U(t_) == f"self.{attr}" for t_ in (s_.targets if isinstance(s_, ast.Assign) else [s_.target]))]
                for s_ in stores:
                    v = s_.value
                    if isinstance(v, ast.Attribute) and isinstance(v.value, ast.Name) and v.value.id == "self" and v.attr in grown and v.attr != attr:
                        bad = bad or (fi, s_, f"`{U(s_)[:60]}` in {fi.name} binds self.{attr} to the very object of self.{v.attr} (one container under two names): "
                                      f"what is appended to one appears in the other, so members and their companions are no longer paired")
                if fi.name == "__init__" and stores:
                    # the binding dominates the normal exit (every constructed instance has its own container)
                    if any(fv.dominates(s_, fv.cfg.exit) or fv.post_dominates(s_, fv.cfg.entry) for s_ in stores) or len(stores) >= 1 and _all_paths_bind(fv, stores):
                        bound_in_init = True
            if bad is None and not bound_in_init and init is not None and init.cls is ci:
                bad = (init, init.node, f"`self.{attr}` is grown in place by {grown[attr].name}() but the constructor does not bind it to a new container on every path")
            n += 1
            if bad is not None:
                ctx.violate(rule, site, (bad[0], bad[1]) if not isinstance(bad[0], ast.AST) else bad[1], bad[2])
            else:
                ctx.hold(rule, site, grown[attr], f"self.{attr} is an own container of every instance")
    return n


def _all_paths_bind(fv, stores):
    """every normal path from entry to exit passes one of the stores"""
    blocked = {id(fv.node_of(s_)) for s_ in stores if fv.node_of(s_) is not None}
    seen, work = set(), [fv.cfg.entry]
    while work:
        nd = work.pop()
        if id(nd) in seen or id(nd) in blocked:
            continue
        seen.add(id(nd))
        if nd is fv.cfg.exit:
            return False
        work.extend(x for x, lab in nd.succ if lab != "exc")
    return True


def check_weighted_mean(ctx, rule="STAT"):
    """Emulsion.interface_width is the mean of the members' widths weighted by their surface area; the weights can all vanish
    (no diffuse member, or only members of radius 0: copies of dissolved droplets), so the division is guarded by the *total
    weight* being zero — a test on the number of collected members lets `0/0` or `ZeroDivisionError` through."""
    from ..astutil import canon_guards

    m = ctx.model
    fi = m.func(f"{EM}.Emulsion.interface_width")
    fv = view(m, fi)
    si = stmt_index(fv)
    site = fi.qualname + ":weighted-mean"
    n = 0
    for rn in fv.return_nodes():
        r = rn.stmt
        if r.value is None or (isinstance(r.value, ast.Constant) and r.value.value is None):
            continue
        v = r.value
        while isinstance(v, ast.Call) and U(v.func) in ("float", "np.float64") and len(v.args) == 1:
            v = v.args[0]
        den = None
        how = ""
        if isinstance(v, ast.BinOp) and isinstance(v.op, ast.Div):
            den = U(v.right)
            how = "division"
        elif isinstance(v, ast.Call) and U(v.func).split(".")[-1] == "average" and kwarg(v, "weights") is not None:
            w = U(kwarg(v, "weights"))
            den = None
            how = f"np.average(…, weights={w})"
            g = canon_guards(si, r)
            texts = {t.replace(" ", "") for t, p in g if p} | {"not:" + t.replace(" ", "") for t, p in g if not p}
            sums = (f"sum({w})", f"np.sum({w})", f"math.fsum({w})", f"{w}.sum()")
            ok = any(f"0<{s_}" in texts or f"not:{s_}==0" in texts or f"{s_}!=0" in texts or f"not:{s_}<=0" in texts for s_ in sums)
            n += 1
            ctx.decide(ok, rule, site, (fi, r), "the weighted mean is taken only when the total weight is positive",
                       f"`{U(r.value)[:70]}` is not guarded by the total weight: when every collected member has surface area 0 (radius 0, e.g. copies of dissolved droplets) "
                       "numpy raises ZeroDivisionError('Weights sum to zero') instead of the documented None")
            continue
        if den is None:
            ctx.undecided(rule, site, (fi, r), f"returned value `{U(r.value)[:60]}` not recognised as a weighted mean")
            continue
        g = canon_guards(si, r)
        texts = {t.replace(" ", "") for t, p in g if p} | {"not:" + t.replace(" ", "") for t, p in g if not p}
        ok = any(x in texts for x in (f"0<{den}", f"not:{den}==0", f"{den}!=0", f"not:{den}<=0", f"{den}"))
        n += 1
        ctx.decide(ok, rule, site, (fi, r), f"the {how} by the total weight `{den}` is taken only when it is non-zero (None otherwise)",
                   f"`{U(r.value)[:70]}` divides by the total weight `{den}` without excluding {den} == 0 (guards: {sorted(texts)[:4]}): when every collected member has surface area 0 "
                   "(radius 0) the result is 0/0 or ZeroDivisionError instead of None")
    return n


def check_list_appends(ctx, rule="PAIR"):
    """The list-like collections (Emulsion, DropletTrackList) store every item they are asked to append: an `append` override
    stores through `super().append(…)` exactly once on every path that does not raise (a "skip if already present" test
    compares tracks / droplets by *value*, so equal but distinct members are silently lost), and no override exists that the
    tracking code would bypass."""
    m = ctx.model
    from ..astutil import count_on_normal_paths

    n = 0
    for cname in ("Emulsion", "DropletTrackList"):
        ci = m.cls(cname)
        if ci is None:
            continue
        lst = ci.methods.get("append", [])
        if not lst:
            n += 1
            ctx.hold(rule, f"{ci.qualname}.append:stores-once", ci.node, "inherits list.append: every appended item is stored")
            continue
        fi = lst[0]
        fv = view(m, fi)
        stores = [c for c in fv.calls() if U(c.func) in ("super().append", "list.append")]
        counts = count_on_normal_paths(fv, stores) if stores else {0}
        n += 1
        ctx.decide(counts == {1}, rule, f"{ci.qualname}.append:stores-once", (fi, stores[0]) if stores else fi,
                   "every call that does not raise stores the item exactly once",
                   f"{cname}.append stores the item {sorted(counts)} time(s) depending on the path: an item can be dropped silently (e.g. `if x not in self` compares by value, so a second, equal "
                   "droplet or freshly started track is lost) or stored twice — the collection no longer equals the list model")
    return n


def check_bbox_union(ctx, rule="STAT"):
    """The bounding box of an emulsion is the union of its members' own boxes (`droplet.bbox`, summed as Cuboids).  A version
    that recomputes it from centre positions and radii is a different quantity: the outermost *centre* need not belong to the
    droplet that reaches furthest, and a member's own box is not `position ± radius` for every droplet class."""
    m = ctx.model
    q = f"{EM}.Emulsion.bbox"
    if not m.has_func(q):
        return 0
    fi = m.func(q)
    # member variables: targets of loops / comprehensions over self (or slices of self)
    member_vars = set()
    for n in ast.walk(fi.node):
        gens = n.generators if isinstance(n, (ast.ListComp, ast.GeneratorExp, ast.SetComp)) else ([n] if isinstance(n, ast.For) else [])
        for g in gens:
            it = g.iter
            while isinstance(it, ast.Subscript):
                it = it.value
            if isinstance(it, ast.Name) and it.id == "self" and isinstance(g.target, ast.Name):
                member_vars.add(g.target.id)
    used = set()
    first = None
    for n in ast.walk(fi.node):
        if isinstance(n, ast.Attribute):
            base = n.value
            if isinstance(base, ast.Name) and base.id in member_vars:
                used.add(n.attr)
                if n.attr != "bbox":
                    first = first or n
            elif isinstance(base, ast.Subscript) and U(base.value) == "self":
                used.add(n.attr)
                if n.attr != "bbox":
                    first = first or n
    ok = "bbox" in used and used <= {"bbox"}
    ctx.decide(ok, rule, fi.qualname + ":union", (fi, first) if first is not None else fi, "the emulsion's box is built from the members' own boxes only",
               f"Emulsion.bbox reads {sorted(used - {'bbox'}) or 'nothing'} of its members instead of (only) their `.bbox`: the box is not the union of the members' boxes (the droplet with the outermost centre "
               "is not the one that reaches furthest when radii differ; ties make the result depend on the member order)")
    return 1
