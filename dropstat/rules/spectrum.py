"""Rules over get_structure_factor / get_length_scale (C16, C17): DIM unit inference with
amplitude and cell-count dimensions plus coordinate/length typing, and structural rules."""

from __future__ import annotations

import ast

from ..astutil import U, view, arg_or_kw, kwarg, names_in, stmt_index, compare_parts
from ..cfg import walk_no_nested
from ..dim import DimEval, Unit, Obj, Fn, ONE, LEN, L, POLY, show as ushow
from ..model import dotted

IMG = "droplets.image_analysis"
SF = f"{IMG}.get_structure_factor"
LS = f"{IMG}.get_length_scale"

K_UNIT = Unit(-1, 0, 0, True)
S_UNIT = Unit(0, 0, 0, True)

GRID_ATTRS = {
    "discretization": LEN, "typical_discretization": LEN, "axes_bounds": Unit(1, 0, 0, False, True), "length": LEN,
}


def sf_eval(ctx):
    m = ctx.model
    fi = m.func(SF)
    field = fi.params[0]
    ev = DimEval(m, fi, attr_units=GRID_ATTRS,
                 expr_units={f"{field}.data": Unit(0, 1, 0, True), "grid.cuboid.size": Unit(1, 0, 0, True), f"{field}.grid.cuboid.size": Unit(1, 0, 0, True)},
                 param_units={})
    return fi, ev


def report_mismatches(ctx, fi, ev, rule_map=None):
    for kind, node, msg, key in ev.mismatches + [x for s in ev.nested.values() for x in s.mismatches]:
        ctx.violate(kind, f"{fi.qualname}:{key}", (fi, node), msg)


def report_obligations(ctx, fi, ev):
    n = 0
    fv = ev.fv
    si = stmt_index(fv)
    for what, call, where, ok, detail, d in ev.obl:
        tag = "given"
        if d is not None and d.stmt is not None:
            g = si.guards(d.stmt)
            if any(isinstance(t, ast.Compare) and isinstance(t.ops[0], ast.Is) and isinstance(t.comparators[0], ast.Constant) and t.comparators[0].value is None and p for t, p in g) \
                    or any(isinstance(t, ast.Compare) and isinstance(t.ops[0], ast.Eq) and isinstance(t.comparators[0], ast.Constant) and t.comparators[0].value == "auto" and p for t, p in g):
                tag = "default"
        n += 1
        key = f"{fi.qualname}:{what}<-{tag}"
        if not ok and d is not None and d.stmt is not None and getattr(d.stmt, "value", None) is not None:
            # a finding is identified by *what* is used as the width, so that another wrong default at the same place is a new finding
            key += f"[{U(d.stmt.value)}]"
        ctx.decide(ok, "DIM", key, (fi, where),
                   f"{detail}: smoothing width and wave numbers share one unit",
                   f"{detail}: a quantity with the wrong unit is used as the smoothing width on the wave-number axis, so the result does not scale with the grid")
    return n


def check_sf_units(ctx):
    fi, ev = sf_eval(ctx)
    fv = ev.fv
    rets = [n for n in fv.return_nodes() if isinstance(n.stmt.value, ast.Tuple) and len(n.stmt.value.elts) == 2]
    if not rets:
        ctx.undecided("DIM", SF + ":return", fi, "return (k, S) not found")
        return ev
    for idx, (want, desc) in enumerate(((K_UNIT, "wave numbers: 1/length"), (S_UNIT, "structure factor: degree 0 in field amplitude and in cell count"))):
        tag = f"{SF}:return[{idx}]"
        known, bad = 0, None
        for r in rets:
            e = r.stmt.value.elts[idx]
            if isinstance(e, ast.Name):
                for d, u in ev.name_units_per_def(e.id, r):
                    if isinstance(u, Unit):
                        known += 1
                        if not u.same(want) or u.pt:
                            bad = (d.stmt if d.stmt is not None else r.stmt, u)
            else:
                u = ev.as_unit(ev.unit(e, r))
                if isinstance(u, Unit):
                    known += 1
                    if not u.same(want) or u.pt:
                        bad = (r.stmt, u)
        if bad:
            st_, u = bad
            ctx.violate("DIM", tag, (fi, st_),
                        f"`{U(st_)[:70]}` gives the returned {desc.split(':')[0]} the unit {u.show()}, expected {want.show()} ({desc}): "
                        + ("the structure factor changes when the field is multiplied by a constant or re-gridded" if idx == 1 else "wave numbers do not scale inversely with the grid's physical size"))
        elif known:
            ctx.hold("DIM", tag, (fi, rets[0].stmt), f"{known} definition(s) with unit {want.show()} — {desc}")
        else:
            ctx.undecided("DIM", tag, (fi, rets[0].stmt), "no definition with inferable unit")
    ev.visit_tests()
    report_mismatches(ctx, fi, ev)
    report_obligations(ctx, fi, ev)
    return ev


def check_sf_structure(ctx):
    m = ctx.model
    fi = m.func(SF)
    fv = view(m, fi)
    si = stmt_index(fv)
    field = fi.params[0]
    data = f"{field}.data"
    # ---- RAWDATA: transform and normalisation both use the unmodified field values
    ffts = [c for c in fv.calls() if (fv.callee(c) or "").split(".")[-1] in ("fftn", "fft", "fft2", "rfftn")]
    if len(ffts) != 1:
        ctx.undecided("RAWDATA", SF + ":fft", fi, f"{len(ffts)} FFT calls")
    else:
        c = ffts[0]
        a = U(fv.expand(c.args[0], c))
        norm = kwarg(c, "norm")
        ok = a == data
        ctx.decide(ok, "RAWDATA", SF + ":fft", (fi, c), "the transform is taken of the field values themselves",
                   f"the transform is taken of `{a[:70]}`, not of {data}: the normalisation no longer relates the spectrum to the field (Parseval: Σ S = 1 − mean²/mean of squares)")
        okn = isinstance(norm, ast.Constant) and norm.value == "ortho"
        ctx.decide(okn, "RAWDATA", SF + ":norm", (fi, c), "orthonormal transform", f"FFT normalisation is {U(norm) if norm is not None else 'the default (unnormalised)'}; the division by the squared norm assumes the orthonormal transform")
    sfdef = None
    for s in fv.statements():
        if isinstance(s, ast.Assign) and isinstance(s.value, ast.BinOp) and isinstance(s.value.op, ast.Div) and ffts and any(x is ffts[0] for x in ast.walk(fv.expand(s.value, s))) is False:
            pass
    # the transform is used as computed: a local holding it is not written in place (Nyquist plane zeroed, modes masked) — modes removed
    # from the numerator while the normalisation still counts the whole field break Parseval's sum on the affected grids
    fft_locals = {s_.targets[0].id for s_ in fv.statements() if isinstance(s_, ast.Assign) and len(s_.targets) == 1 and isinstance(s_.targets[0], ast.Name)
                  and isinstance(s_.value, ast.Call) and "fft" in U(s_.value.func).lower()}
    for s_ in fv.statements():
        tg_ = s_.targets if isinstance(s_, ast.Assign) else ([s_.target] if isinstance(s_, ast.AugAssign) else [])
        for t_ in tg_:
            r_ = t_
            while isinstance(r_, (ast.Subscript, ast.Attribute)):
                r_ = r_.value
            if isinstance(t_, (ast.Subscript, ast.Attribute)) and isinstance(r_, ast.Name) and r_.id in fft_locals:
                ctx.violate("RAWDATA", SF + ":modulus", (fi, s_), f"`{U(s_)[:70]}` modifies the Fourier transform in place before the squared modulus is taken: modes are removed from the numerator "
                            "while the normalisation still counts the whole field, so the spectrum no longer sums to 1 − mean²·N/Σf² (Parseval) — on grids with an even axis for a zeroed Nyquist plane")
    # normalisation: the assignment that divides |f|^2 (temporaries resolved)
    cand = [s for s in fv.statements() if isinstance(s, ast.Assign) and not isinstance(s.value, ast.Name) and isinstance(fv.expand(s.value, s), ast.BinOp) and isinstance(fv.expand(s.value, s).op, ast.Div) and "abs" in U(fv.expand(s.value, s))
            and "fft" in U(fv.expand(s.value, s))]
    if len(cand) == 1:
        s = cand[0]
        full = fv.expand(s.value, s)
        den = full.right
        forms = (f"np.dot({data}.flat, {data}.flat)", f"np.sum({data} ** 2)", f"({data} ** 2).sum()", f"np.vdot({data}, {data})", f"np.sum(np.abs({data}) ** 2)", f"np.linalg.norm({data}) ** 2")
        ok = U(den) in forms
        ctx.decide(ok, "RAWDATA", SF + ":normalisation", (fi, s), "normalised by the sum of squares of the same field values",
                   f"the spectrum is normalised by `{U(den)[:70]}`; expected the sum of squares of {data}")
        num = full.left
        okm = U(num).replace(" ", "") in (f"np.abs(np_fftn({data},norm='ortho').flat[1:])**2",)
        if not okm:
            # the transform stored in a local that is modified in place before the modulus is taken (Nyquist plane zeroed, modes masked)
            from ..astutil import value_cases as _vc

            try:
                alts = [U(v_) for _d, v_ in _vc(fv, s, s.value)]
            except Exception:  # noqa: BLE001
                alts = []
            if any("__modified_in_place__" in a_ and "np_fftn" in a_ for a_ in alts):
                ctx.violate("RAWDATA", SF + ":modulus", (fi, s), "the Fourier transform is modified in place before the squared modulus is taken: modes are removed from the numerator while the "
                            "normalisation still counts the whole field, so the spectrum no longer sums to 1 − mean²·N/Σf² (Parseval) on the affected grids")
                okm = None
        if okm is not None:
          ctx.decide(okm, "RAWDATA", SF + ":modulus", (fi, s), "squared modulus of every non-zero Fourier mode (non-negative)", f"numerator is `{U(num)[:80]}`, not |f|² of the modes without the zero mode")
    else:
        ctx.undecided("RAWDATA", SF + ":normalisation", fi, "normalisation statement not recognised")
    # ---- INDEXAGREE: per-axis wave numbers: component i = fftfreq(shape[i], spacing[i]/2π)², whatever the iteration is spelled like
    from ..astutil import loop_as_comprehension, element_index_form
    from ..algebra import Converter as _Conv, NotAlgebraic as _NA
    import copy as _copy

    comps = [s for s in fv.statements() if isinstance(s, ast.Assign) and isinstance(s.value, ast.ListComp) and "fftfreq" in U(s.value)]
    if not comps:
        for s_ in fv.statements():
            if isinstance(s_, ast.For) and "fftfreq" in U(s_):
                for init in fv.statements():
                    if isinstance(init, (ast.Assign, ast.AnnAssign)) and isinstance(init.value, ast.List) and not init.value.elts:
                        tg_ = init.targets[0] if isinstance(init, ast.Assign) else init.target
                        if isinstance(tg_, ast.Name):
                            lc_ = loop_as_comprehension(s_, tg_.id)
                            if lc_ is not None:
                                comps.append(ast.copy_location(ast.Assign(targets=[ast.Name(id=tg_.id, ctx=ast.Store())], value=lc_, lineno=s_.lineno), s_))
    if not comps:
        # no fftfreq anywhere: the per-axis components are whatever list is handed to the outer sum reduce(np.add.outer, X)
        for c_ in fv.calls():
            if U(c_.func).split(".")[-1] == "reduce" and len(c_.args) >= 2 and U(c_.args[0]) in ("np.add.outer", "numpy.add.outer") and isinstance(c_.args[1], ast.Name):
                X_ = c_.args[1].id
                for s_ in fv.statements():
                    if isinstance(s_, ast.Assign) and isinstance(s_.targets[0], ast.Name) and s_.targets[0].id == X_ and isinstance(s_.value, ast.ListComp):
                        comps.append(s_)
                if not comps:
                    for s_ in fv.statements():
                        if isinstance(s_, ast.For):
                            lc_ = loop_as_comprehension(s_, X_)
                            if lc_ is not None:
                                comps.append(ast.copy_location(ast.Assign(targets=[ast.Name(id=X_, ctx=ast.Store())], value=lc_, lineno=s_.lineno), s_))
    km = []
    if len(comps) == 1:
        lc = comps[0].value
        g = lc.generators[0]
        detail = U(lc)[:100]
        ok = False
        ef = element_index_form(g.target, g.iter) if len(lc.generators) == 1 and not g.ifs else None
        if ef is not None:
            mapping, rng = ef

            class _S(ast.NodeTransformer):
                def visit_Name(self, n):
                    if isinstance(n.ctx, ast.Load) and n.id in mapping:
                        return _copy.deepcopy(mapping[n.id])
                    return n

            at_ = comps[0] if fv.node_of(comps[0]) is not None else None
            elt = lc.elt
            if at_ is not None:
                elt = fv.expand(elt, at_, stop=tuple(mapping) + ("grid",))
            else:
                # loop form: resolve temporaries defined before the loop (e.g. two_pi)
                loops_ = [s_ for s_ in fv.statements() if isinstance(s_, ast.For) and "fftfreq" in U(s_)]
                if loops_:
                    elt = fv.expand(elt, loops_[0], stop=tuple(mapping) + ("grid",))
            elt = _S().visit(_copy.deepcopy(elt))
            ff = [c for c in ast.walk(elt) if isinstance(c, ast.Call) and U(c.func).endswith("fftfreq")]
            sq = isinstance(elt, ast.BinOp) and isinstance(elt.op, ast.Pow) and U(elt.right) == "2"
            full_range = rng in ("grid.dim", "grid.num_axes", "len(grid.shape)", "len(grid.discretization)", "zip:grid.shape,grid.discretization")
            if len(ff) == 1 and sq and full_range:
                n_arg = arg_or_kw(ff[0], 0, "n")
                d_arg = arg_or_kw(ff[0], 1, "d")
                try:
                    cvx = _Conv()
                    ok = n_arg is not None and d_arg is not None and U(n_arg) == "grid.shape[__i]" and cvx.conv(d_arg) == cvx.conv(ast.parse("grid.discretization[__i] / (2 * np.pi)", mode="eval").body)
                except _NA:
                    ok = False
        handwritten = None
        if ef is not None and not [c for c in ast.walk(lc.elt) if isinstance(c, ast.Call) and U(c.func).endswith("fftfreq")] and "fftfreq" not in U(fv.expand(lc.elt, comps[0]) if fv.node_of(comps[0]) is not None else lc.elt):
            # hand-written mode numbers np.arange(A, B) (shifted): the discrete Fourier modes of n cells are −(n//2) … (n−1)//2 (numpy's convention);
            # `-n // 2` is floor(−n/2) = −ceil(n/2), one too low for an odd number of cells
            handwritten = "unknown"
            for c_ in ast.walk(lc.elt):
                if isinstance(c_, ast.Call) and U(c_.func).split(".")[-1] == "arange" and len(c_.args) == 2:
                    a_, b_ = (U(x_).replace(" ", "") for x_ in c_.args)
                    nn = a_.replace("-(", "").replace(")//2", "").replace("//2", "").replace("-", "").replace("(", "").replace(")", "")
                    if a_ in (f"-({nn}//2)",) and b_ in (f"({nn}+1)//2", f"{nn}-{nn}//2", f"-(-{nn}//2)"):
                        handwritten = "right"
                    elif a_ == f"-{nn}//2":
                        handwritten = "wrong"
        if handwritten == "wrong":
            ctx.violate("INDEXAGREE", SF + ":wave-vectors", (fi, comps[0]) if fv.node_of(comps[0]) is not None else fi,
                        f"hand-written mode numbers `{detail}`: `-n // 2` is −ceil(n/2), so for an odd number of cells every mode is attributed to the neighbouring wave number (the range is "
                        "−(n+1)/2 … (n−3)/2 instead of −(n−1)/2 … (n−1)/2); the spectrum and every length scale derived from it are shifted by one Fourier bin on such grids")
        elif handwritten is not None:
            ctx.undecided("INDEXAGREE", SF + ":wave-vectors", (fi, comps[0]) if fv.node_of(comps[0]) is not None else fi, f"hand-written wave numbers `{detail}` (no fftfreq)")
        else:
          ctx.decide(ok, "INDEXAGREE", SF + ":wave-vectors", (fi, comps[0]) if fv.node_of(comps[0]) is not None else fi,
                     "component i of the wave vectors = 2π·fftfreq(shape[i], spacing[i]) for every axis i (same index for size and spacing)",
                     f"wave-vector components are `{detail}`; every axis i needs fftfreq(grid.shape[i], d=grid.discretization[i]/(2π)) with its own cell count and its own spacing")
        kname = U(comps[0].targets[0])
        km = [s for s in fv.statements() if isinstance(s, ast.Assign) and ".flat[1:]" in U(s.value) and "reduce" in U(fv.expand(s.value, s, stop=(kname,))) and kname in names_in(fv.expand(s.value, s, stop=(kname,)))]
        okk = len(km) == 1 and U(fv.expand(km[0].value, km[0], stop=(kname,))).replace(" ", "") == f"np.sqrt(reduce(np.add.outer,{kname})).flat[1:]"
        ctx.decide(okk, "INDEXAGREE", SF + ":magnitude", (fi, km[0]) if km else fi, "|k| = √(Σ_i k_i²) on the full mode grid, zero mode dropped like in the spectrum ([1:])",
                   "the wave-number magnitudes are not sqrt(outer sum of squared components).flat[1:] — modes and wave numbers would be paired wrongly")
    else:
        # hand-written DFT frequencies: `m = arange(n); m[m >= T] -= n` must fold at T = ceil(n/2) (numpy's fftfreq convention:
        # for odd n the mode (n−1)/2 is positive); folding at n // 2 gives that mode the wave number of −(n+1)/2
        fold = None
        for s_ in fv.statements():
            if isinstance(s_, ast.AugAssign) and isinstance(s_.op, ast.Sub) and isinstance(s_.target, ast.Subscript) and isinstance(s_.target.slice, ast.Compare) \
                    and len(s_.target.slice.ops) == 1 and isinstance(s_.target.slice.ops[0], (ast.GtE, ast.Gt)) and U(s_.target.slice.left) == U(s_.target.value):
                fold = s_
        if fold is not None and not any("fftfreq" in U(x_) for x_ in fv.statements()):
            n_ = U(fold.value)
            t_ = U(fold.target.slice.comparators[0]).replace(" ", "")
            strict = isinstance(fold.target.slice.ops[0], ast.Gt)
            good = {f"({n_}+1)//2", f"-(-{n_}//2)", f"{n_}-{n_}//2", f"(1+{n_})//2"} if not strict else {f"({n_}-1)//2", f"({n_}+1)//2-1"}
            ctx.decide(t_ in good, "INDEXAGREE", SF + ":wave-vectors", (fi, fold),
                       "hand-written mode numbers fold at ceil(n/2), like the discrete Fourier frequencies",
                       f"`{U(fold)}` folds the mode numbers at `{t_}`: for an odd number of cells the mode (n−1)/2 becomes −(n+1)/2, so the wave numbers are not the discrete Fourier wave numbers of the grid (±m get different |k|)")
        else:
            ctx.undecided("INDEXAGREE", SF + ":wave-vectors", fi, "wave-vector comprehension not found")
    # ---- SMOOTHIN: the smoother interpolates exactly the raw spectrum (non-zero modes only), whatever the other options are
    sm = [c for c in fv.calls() if (fv.callee(c) or U(c.func)).split(".")[-1] == "SmoothData1D"]
    if sm and len(comps) == 1 and len(cand) == 1 and len(km) == 1:
        want_x = U(fv.expand(km[0].value, km[0], allow_mutated=True))
        want_y = U(fv.expand(cand[0].value, cand[0], allow_mutated=True))
        bad = None
        for c in sm:
            x = arg_or_kw(c, 0, "x")
            y = arg_or_kw(c, 1, "y")
            gx = U(fv.expand(x, c, allow_mutated=True)) if x is not None else None
            gy = U(fv.expand(y, c, allow_mutated=True)) if y is not None else None
            if gx != want_x or gy != want_y:
                bad = (c, f"`{U(c)[:90]}` smooths ({(gx or '?')[:50]}…, {(gy or '?')[:50]}…)")
                break
            if any("add_zero" in names_in(t) for t, _p in si.effective_guards(c)):
                bad = (c, f"`{U(c)[:90]}` depends on add_zero")
                break
        ctx.decide(bad is None, "SMOOTHIN", SF + ":smoother", (fi, bad[0] if bad else sm[0]),
                   "the smoothed spectrum interpolates exactly the raw spectrum of the non-zero modes (wave-number magnitudes and normalised |f|²), independent of add_zero",
                   (bad[1] if bad else "") + ": the smoothed values must be computed from the raw non-zero-mode spectrum only; add_zero may only prepend (0, 1) to the result")
    else:
        ctx.undecided("SMOOTHIN", SF + ":smoother", fi, "SmoothData1D call or raw spectrum definitions not recognised")
    # ---- PERMINV: the flattened per-mode arrays are used only through order-free reductions (max, sum …) and the common [1:]
    # cut: an individual element such as k_mag[0] is "the first mode in C order" and changes when the axes are permuted
    if len(km) == 1 and len(cand) == 1:
        per_mode = {U(km[0].targets[0]), U(cand[0].targets[0])}
        picked = []
        for s_ in fv.statements():
            if s_ is km[0] or s_ is cand[0]:
                continue
            for n_ in walk_no_nested(s_) if not isinstance(s_, (ast.FunctionDef, ast.ClassDef)) else []:
                if isinstance(n_, ast.Subscript) and isinstance(n_.ctx, ast.Load) and isinstance(n_.value, ast.Name) and n_.value.id in per_mode \
                        and isinstance(n_.slice, (ast.Constant, ast.UnaryOp)) and not isinstance(n_.slice, ast.Slice):
                    # only before the arrays are replaced by the requested / smoothed values
                    if all(d_.stmt in (km[0], cand[0]) for d_ in fv.defs_reaching(n_.value.id, s_) if d_.stmt is not None):
                        picked.append((s_, n_))
        ctx.decide(not picked, "PERMINV", SF + ":mode-order", (fi, picked[0][0]) if picked else fi, "no single element of the flattened mode arrays is singled out",
                   f"`{U(picked[0][1]) if picked else ''}` picks one element of the flattened spectrum: which mode that is depends on the order of the axes (for unequal box lengths "
                   "the first non-zero mode is 2π/L of the *last* axis), so permuting the axes together with the grid changes the result")
    # ---- PASS: requested wave numbers are returned as given
    wn = fi.params[2] if len(fi.params) > 2 else "wave_numbers"
    from ..astutil import symbolic_paths

    accepted = {f"np.array({wn})", f"np.asarray({wn})", f"np.asarray({wn}, dtype=float)", f"np.array({wn}, dtype=float)"}
    asg = [s for s in fv.statements() if isinstance(s, ast.Assign) and U(s.value) in accepted]
    rets = [n.stmt for n in fv.return_nodes() if isinstance(n.stmt.value, ast.Tuple) and len(n.stmt.value.elts) == 2]
    n_req, bad = 0, None

    def strip_zero(e, first):
        """X of np.r_[first, X] (the prepended zero mode) or e itself"""
        if isinstance(e, ast.Subscript) and U(e.value) == "np.r_" and isinstance(e.slice, ast.Tuple) and len(e.slice.elts) == 2 and U(e.slice.elts[0]) == first:
            return e.slice.elts[1]
        return e

    for r in rets:
        from ..astutil import ifexp_cases as _ifc

        alts = []
        for _dec, (kv0, sv0) in symbolic_paths(fv, r, list(r.value.elts)):
            # conditional expressions inside the two values are alternatives like branches (split jointly)
            for _c, pair in _ifc(ast.Tuple(elts=[kv0, sv0], ctx=ast.Load())):
                if isinstance(pair, ast.Tuple) and len(pair.elts) == 2:
                    d_all = dict(_dec)
                    d_all.update({t_: o_ for t_, o_ in _c})
                    alts.append((pair.elts[0], pair.elts[1], d_all))
        # whatever sequence type the caller uses for the wave numbers (list, tuple, array): on every path that such a request can
        # take through a smoothed evaluation, its values are what is returned
        def _wn_truth(t, kind):
            """truth of a test on the wave_numbers argument for one kind of request; None if it depends on something else"""
            if isinstance(t, ast.BoolOp):
                vals = [_wn_truth(v_, kind) for v_ in t.values]
                if isinstance(t.op, ast.And):
                    return False if any(v_ is False for v_ in vals) else (True if all(v_ is True for v_ in vals) else None)
                return True if any(v_ is True for v_ in vals) else (False if all(v_ is False for v_ in vals) else None)
            if isinstance(t, ast.UnaryOp) and isinstance(t.op, ast.Not):
                v_ = _wn_truth(t.operand, kind)
                return None if v_ is None else not v_
            if isinstance(t, ast.Compare) and len(t.ops) == 1 and U(t.left) == wn:
                c_ = t.comparators[0]
                if isinstance(t.ops[0], (ast.Is, ast.IsNot)) and isinstance(c_, ast.Constant) and c_.value is None:
                    return (kind == "None") == isinstance(t.ops[0], ast.Is)
                if isinstance(t.ops[0], (ast.Eq, ast.NotEq)) and isinstance(c_, ast.Constant) and isinstance(c_.value, str):
                    return (kind == "auto" and c_.value == "auto") == isinstance(t.ops[0], ast.Eq)
            if isinstance(t, ast.Call) and U(t.func) == "isinstance" and len(t.args) == 2 and U(t.args[0]) == wn:
                tn = [U(e_) for e_ in t.args[1].elts] if isinstance(t.args[1], ast.Tuple) else [U(t.args[1])]
                KINDS = {"str": {"auto"}, "list": {"list"}, "tuple": {"tuple"}, "np.ndarray": {"ndarray"}, "numpy.ndarray": {"ndarray"}, "Sequence": {"list", "tuple", "auto"},
                         "collections.abc.Sequence": {"list", "tuple", "auto"}, "Iterable": {"list", "tuple", "ndarray", "auto"}, "collections.abc.Iterable": {"list", "tuple", "ndarray", "auto"}}
                if all(x_ in KINDS for x_ in tn):
                    return any(kind in KINDS[x_] for x_ in tn)
            return None

        for kind in ("list", "tuple", "ndarray"):
            for kv, sv, dec in alts:
                feasible = True
                for ttxt, outc in dec.items():
                    try:
                        tn_ = ast.parse(ttxt, mode="eval").body
                        tv_ = _wn_truth(tn_, kind)
                        if tv_ is None and isinstance(tn_, ast.Constant) and isinstance(tn_.value, bool):
                            tv_ = tn_.value  # a flag that this path has already fixed to a constant
                    except SyntaxError:
                        tv_ = None
                    if tv_ is not None and tv_ != outc:
                        feasible = False
                        break
                if not feasible:
                    continue
                sx_ = strip_zero(sv, "1")
                smoothed = isinstance(sx_, ast.Call) and isinstance(sx_.func, ast.Call) and U(sx_.func.func).split(".")[-1] == "SmoothData1D"
                if smoothed and wn not in names_in(strip_zero(kv, "0")):
                    bad = bad or (r, f"wave numbers given as a {kind} are replaced by `{U(strip_zero(kv, '0'))[:60]}` on a path through the smoothed evaluation")
        for kv, sv, _d in alts:
            kx, sx = strip_zero(kv, "0"), strip_zero(sv, "1")
            if wn not in names_in(kx):
                continue
            if U(kx) not in accepted:
                bad = bad or (r, f"returns `{U(kx)[:80]}` as wave numbers")
                continue
            # the spectrum is the smoothed function evaluated at exactly these points
            if isinstance(sx, ast.Call) and [U(a) for a in sx.args] == [U(kx)] and not sx.keywords and U(sx.func) not in ("np.array", "np.asarray"):
                n_req += 1
            else:
                bad = bad or (r, f"returns the spectrum `{U(sx)[:80]}`, which is not the smoothed function evaluated at the requested wave numbers")
    ok = bool(rets) and n_req > 0 and bad is None
    ctx.decide(ok, "PASS", SF + ":wave_numbers", (fi, asg[0]) if asg else fi, "requested wave numbers are converted to an array and returned unchanged; the smoothed spectrum is evaluated at exactly these points",
               "the wave numbers requested by the caller are not returned unchanged" + (f": {bad[1]}" if bad else ""))
    # ---- ADDZERO
    from ..astutil import value_cases, truth_of

    table = {}
    for n in fv.return_nodes():
        v = n.stmt.value
        if not (isinstance(v, ast.Tuple) and len(v.elts) == 2):
            continue
        for dec, val in value_cases(fv, n.stmt, v):
            az = truth_of(dec, "add_zero")
            key = tuple(sorted((k, b_) for k, b_ in dec.items() if "add_zero" not in k))
            if isinstance(val, ast.Tuple):
                table.setdefault(key, {})[az] = (U(val.elts[0]), U(val.elts[1]), n.stmt)
    ok, detail, where, n_pairs = True, "", fi, 0
    for key, d in table.items():
        if True in d and False in d:
            n_pairs += 1
            k0, s0, _ = d[False]
            k1, s1, st_ = d[True]
            if not (k1.replace(" ", "") == f"np.r_[0,{k0}]".replace(" ", "") and s1.replace(" ", "") == f"np.r_[1,{s0}]".replace(" ", "")):
                ok = False
                where = st_
                detail = f"with add_zero the result is ({k1[:40]}…, {s1[:40]}…)"
        elif None in d and len(d) == 1:
            ok = False
            detail = "the result does not depend on add_zero on some path (or depends on more than add_zero)"
            where = d[None][2]
        elif True in d or False in d:
            ok = False
            detail = "add_zero is combined with another condition: on some paths the zero mode is added or omitted regardless of the flag"
            where = (d.get(True) or d.get(False))[2]
    ctx.decide(ok and n_pairs > 0, "ADDZERO", SF, (fi, where), "add_zero prepends exactly the pair (k=0, S=1) to the otherwise unchanged result, whatever the other options are",
               f"{detail}; expected (np.r_[0, k], np.r_[1, S]) exactly when add_zero is set")


def top(si, node):
    st = si.statement(node)
    anc = si.ancestors(st)
    return anc[-1][0] if anc else st


# ----------------------------------------------------------------------------- length scale
def ls_eval(ctx):
    m = ctx.model
    fi = m.func(LS)
    field = fi.params[0]

    def sf_call(ev, n, at):
        return Obj(items=[K_UNIT, S_UNIT])

    ev = DimEval(m, fi, attr_units=GRID_ATTRS, expr_units={f"{field}.data": Unit(0, 1, 0, True)},
                 call_units={SF: sf_call, "get_structure_factor": sf_call, f"{IMG}.locate_droplets": None})
    return fi, ev


def check_ls_units(ctx):
    fi, ev = ls_eval(ctx)
    fv = ev.fv
    si = stmt_index(fv)
    rets = [n for n in fv.return_nodes() if isinstance(n.stmt.value, ast.Name)]
    if len(rets) != 1:
        ctx.undecided("DIM", LS + ":return", fi, "final `return length_scale` not found")
        return
    name = rets[0].stmt.value.id
    # which method branch does a definition belong to?
    def branch_of(stmt):
        for t, p in reversed(si.guards(stmt)):
            if "method" in names_in(t) and p:
                for c in ast.walk(t):
                    if isinstance(c, ast.Constant) and isinstance(c.value, str):
                        return c.value
        return "?"

    seen = set()
    for d, u in ev.name_units_per_def(name, rets[0]):
        if d.stmt is None:
            continue
        br = branch_of(d.stmt)
        tag = f"{LS}:length_scale[{br}]"
        if u is POLY:
            ctx.info("DIM", tag + ":nan", (fi, d.stmt), "not-a-number fallback")
            continue
        if not isinstance(u, Unit):
            ctx.undecided("DIM", tag, (fi, d.stmt), f"unit of `{U(d.stmt)[:60]}` not inferable")
            continue
        seen.add(br)
        ok = u.same(LEN) and not u.pt
        ctx.decide(ok, "DIM", tag, (fi, d.stmt),
                   "result has unit length¹·amplitude⁰·count⁰: it scales with the grid and not with the field",
                   f"`{U(d.stmt)[:70]}` has unit {u.show()}, not a length: stretching the grid by a factor does not stretch the reported length scale by that factor (or the field's amplitude / cell count enters)")
    ev.visit_tests()
    report_mismatches(ctx, fi, ev)
    report_obligations(ctx, fi, ev)
    return seen


def check_ls_structure(ctx):
    m = ctx.model
    fi = m.func(LS)
    fv = view(m, fi)
    si = stmt_index(fv)
    # dispatch
    names = set()
    for s in fi.node.body:
        if isinstance(s, ast.If) and "method" in names_in(s.test):
            cur = s
            els = None
            while isinstance(cur, ast.If):
                names |= {c.value for c in ast.walk(cur.test) if isinstance(c, ast.Constant) and isinstance(c.value, str)}
                if len(cur.orelse) == 1 and isinstance(cur.orelse[0], ast.If):
                    cur = cur.orelse[0]
                else:
                    els = cur.orelse
                    break
            ok = {"structure_factor_mean", "structure_factor_maximum", "droplet_detection"} <= names and els and isinstance(els[-1], ast.Raise) and "ValueError" in U(els[-1])
            ctx.decide(bool(ok), "EXHAUST", LS + ":method", (fi, s), "all three documented methods are dispatched; unknown names raise ValueError",
                       f"method dispatch handles {sorted(names)}; documented: structure_factor_mean, structure_factor_maximum, droplet_detection (+ ValueError otherwise)")
    # droplet_detection: free axes and box extent
    fld = fi.params[0]
    want_axes = f"set(range({fld}.grid.dim)) - set({fld}.grid.coordinate_constraints)"
    ax = [s for s in fv.statements() if isinstance(s, ast.Assign) and isinstance(s.targets[0], ast.Name) and U(fv.expand(s.value, s, stop=(fld,))) == want_axes]
    if not ax:
        ax = [s for s in fv.statements() if isinstance(s, ast.Assign) and U(s.targets[0]) == "axes"]
    ok = len(ax) == 1 and U(fv.expand(ax[0].value, ax[0], stop=(fld,))) == want_axes
    ctx.decide(ok, "VOLUME", LS + ":axes", (fi, ax[0]) if ax else fi, "droplets can be placed along the axes not constrained by the grid's symmetry",
               "the free axes are not set(range(grid.dim)) − set(grid.coordinate_constraints)")
    loc = [c for c in fv.calls() if (fv.callee(c) or "").endswith("locate_droplets")]
    okl = len(loc) == 1 and [U(a) for a in loc[0].args] == [fi.params[0]] and any(k.arg is None and U(k.value) == "kwargs" for k in loc[0].keywords)
    dn = None
    if loc:
        st_ = si.statement(loc[0])
        dn = U(st_.targets[0]) if isinstance(st_, ast.Assign) else None
    axn = U(ax[0].targets[0]) if ax else "axes"
    ls = [s for s in fv.statements() if isinstance(s, ast.Assign) and any("droplet_detection" in U(t) and p for t, p in si.guards(s)) and isinstance(s.value, ast.BinOp) and isinstance(s.value.op, ast.Pow)]
    okp = False
    if len(ls) == 1 and dn:
        vol_names = [n_ for n_ in names_in(fv.expand(ls[0].value, ls[0], stop=(dn, axn))) if n_ not in (dn, axn, "len")]
        if len(vol_names) == 1:
            okp = U(fv.expand(ls[0].value, ls[0], stop=(dn, axn, vol_names[0]))) == f"({vol_names[0]} / len({dn})) ** (1 / len({axn}))"
    ctx.decide(okp and okl, "VOLUME", LS + ":per-droplet", (fi, ls[0]) if ls else fi, "length = (box volume / number of droplets located in the field) ** (1 / number of free axes) (options forwarded to locate_droplets)",
               "the droplet-counting length scale is not (box volume / len(locate_droplets(field, **kwargs))) ** (1 / len(axes))")
    # the effective threshold of the droplet count must carry the field's amplitude unit
    if loc:
        c = loc[0]
        explicit = kwarg(c, "threshold")
        callee = m.func(fv.callee(c)) if (fv.callee(c) or "") in m.functions else None
        tsite = LS + ":locate_droplets.threshold<-default"
        if explicit is None and callee is not None:
            d = callee.default_of("threshold")
            setd = [x for x in fv.calls() if isinstance(x.func, ast.Attribute) and x.func.attr == "setdefault" and U(x.func.value) == "kwargs" and x.args
                    and isinstance(x.args[0], ast.Constant) and x.args[0].value == "threshold" and fv.dominates(si.statement(x), si.statement(c))]
            if setd:
                d = setd[0].args[1] if len(setd[0].args) > 1 else None
            if isinstance(d, ast.Constant) and isinstance(d.value, str):
                ctx.hold("DIM", tsite, (fi, c), f"without an explicit option the droplets are counted with the relative threshold rule {d.value!r} (scales with the field)")
            elif isinstance(d, ast.Constant) and isinstance(d.value, (int, float)) and d.value != 0:
                ctx.violate("DIM", tsite, (fi, c), f"without an explicit option the droplets are counted with locate_droplets' default threshold {d.value!r}, an absolute intensity "
                            "(unit amplitude⁰ compared with the field, unit amplitude¹): multiplying the field by a constant changes the mask and thereby the count "
                            "(e.g. 0.5 + 0.5·sin on 64 cells: 16.0; the same field × 0.4: no droplet, result inf)")
            elif isinstance(d, ast.Constant) and d.value == 0:
                ctx.hold("DIM", tsite, (fi, c), "default threshold 0 is invariant under positive rescaling of the field")
            else:
                ctx.undecided("DIM", tsite, (fi, c), "default threshold of the droplet count not recognised")
        elif explicit is not None:
            if isinstance(explicit, ast.Constant) and isinstance(explicit.value, str):
                ctx.hold("DIM", tsite, (fi, c), f"droplets are counted with the relative threshold rule {explicit.value!r}")
            elif isinstance(explicit, ast.Constant) and explicit.value != 0:
                ctx.violate("DIM", tsite, (fi, c), f"droplets are counted with the absolute threshold {U(explicit)}: the count changes when the field is multiplied by a constant")
            else:
                ctx.undecided("DIM", tsite, (fi, c), f"threshold `{U(explicit)}` not classified")
    # peak: maximum excluding k = 0, bracket around it, 2π/k
    sfc = [c for c in fv.calls() if (fv.callee(c) or "").endswith("get_structure_factor")]
    peak = [c for c in sfc if any("maximum" in U(t) and p for t, p in si.guards(c))]
    okc = False
    if len(peak) == 1:
        from ..astutil import call_bindings

        bnd, unres = call_bindings(fv, peak[0], m.func(SF))
        sm_, az_ = bnd.get("smoothing"), bnd.get("add_zero")
        okc = not unres and isinstance(sm_, ast.Constant) and sm_.value is None and isinstance(az_, ast.Constant) and az_.value is True
    K = S = None
    if len(peak) == 1:
        pst = si.statement(peak[0])
        if isinstance(pst, ast.Assign) and isinstance(pst.targets[0], ast.Tuple) and len(pst.targets[0].elts) == 2 and all(isinstance(e, ast.Name) for e in pst.targets[0].elts):
            K, S = (e.id for e in pst.targets[0].elts)
    # the arrays that are smoothed and searched are the ones get_structure_factor returned: every mode of the spectrum takes part
    redefined = None
    if okc and K:
        pnode = fv.node_of(pst)
        for n in ast.walk(fi.node):
            if isinstance(n, ast.Name) and n.id in (K, S) and isinstance(n.ctx, ast.Load):
                st_n = si.statement(n)
                if st_n is None or not any("maximum" in U(t) and p for t, p in si.guards(st_n)):
                    continue
                defs = fv.defs_reaching(n.id, n)
                other = [d for d in defs if d is not pnode]
                if other and redefined is None:
                    redefined = (other[0].stmt if other[0].stmt is not None else st_n, n.id)
    if okc and redefined is not None:
        ctx.violate("PEAK", LS + ":spectrum", (fi, redefined[0]), f"`{U(redefined[0])[:80]}` replaces `{redefined[1]}` between get_structure_factor and the peak search: modes are dropped or re-ordered, so the "
                    "largest mode may no longer take part (the peak of a plane wave is found only if its own mode is kept)")
    else:
        ctx.decide(okc, "PEAK", LS + ":spectrum", (fi, peak[0]) if peak else fi, "peak search uses the raw spectrum with the zero mode added, unmodified",
                   "the peak search does not start from get_structure_factor(field, smoothing=None, add_zero=True)")
    me = []
    if K:
        for s_ in fv.statements():
            if isinstance(s_, ast.Assign) and any("maximum" in U(t) and p for t, p in si.guards(s_)) and any(isinstance(c_, ast.Call) and U(c_.func).split(".")[-1] in ("argmax", "nanargmax", "argmin") for c_ in ast.walk(s_.value)):
                me.append(s_)
    if len(me) == 1:
        got = U(fv.expand(me[0].value, me[0], stop=(K, S))).replace(" ", "")
        forms = (f"{K}[1+np.argmax({S}[1:])]", f"{K}[np.argmax({S}[1:])+1]", f"{K}[1:][np.argmax({S}[1:])]", f"{K}[1+{S}[1:].argmax()]", f"{K}[{S}[1:].argmax()+1]", f"{K}[1:][{S}[1:].argmax()]")
        ctx.decide(got in forms, "PEAK", LS + ":estimate", (fi, me[0]), "initial estimate = wave number of the largest non-zero mode (index shifted by the skipped k = 0 entry)",
                   f"initial peak estimate is `{U(me[0].value)}`; expected {K}[1 + argmax({S}[1:])] (k = 0 carries the value 1 and must be skipped consistently)")
    else:
        ctx.undecided("PEAK", LS + ":estimate", fi, f"{len(me)} arg-max statements in the peak branch")


def check_accumulator_dtype(ctx, quals, rule="DTYPE", image_params=None):
    """Working arrays of the spectral analysis are float64 whatever the image's dtype: an accumulator created with
    `np.zeros_like(<image data>)` (no dtype) inherits float32 / integer dtypes, so wave numbers or sums accumulated in it
    differ from those of the same image stored as float64 (or the in-place addition raises for integer images)."""
    import ast as _ast

    def sites(fnode, params):
        out = []
        for c in _ast.walk(fnode):
            if isinstance(c, _ast.Call) and U(c.func).split(".")[-1] in ("zeros_like", "ones_like", "empty_like", "full_like") and c.args and kwarg(c, "dtype") is None:
                a = c.args[0]
                root = a
                while isinstance(root, (_ast.Attribute, _ast.Subscript)):
                    root = root.value
                if isinstance(a, _ast.Attribute) and a.attr == "data" and isinstance(root, _ast.Name) and root.id in params:
                    out.append(c)
        # results / working arrays cast to a dtype that is computed from the image's dtype (np.result_type(field.data.dtype, …))
        def from_image(e, tainted):
            for x in _ast.walk(e):
                if isinstance(x, _ast.Attribute) and x.attr == "dtype":
                    r = x.value
                    while isinstance(r, (_ast.Attribute, _ast.Subscript)):
                        r = r.value
                    if isinstance(r, _ast.Name) and (r.id in params or r.id in tainted):
                        return True
                if isinstance(x, _ast.Name) and x.id in tainted:
                    return True
            return False

        tainted = set()
        # locals that hold (a selection of) the image's own data: `x = field.data[mask]` — their dtype is the image's
        for s_ in _ast.walk(fnode):
            if isinstance(s_, _ast.Assign) and len(s_.targets) == 1 and isinstance(s_.targets[0], _ast.Name):
                v_ = s_.value
                while isinstance(v_, _ast.Subscript):
                    v_ = v_.value
                r_ = v_
                while isinstance(r_, (_ast.Attribute, _ast.Subscript)):
                    r_ = r_.value
                if isinstance(v_, _ast.Attribute) and v_.attr == "data" and isinstance(r_, _ast.Name) and r_.id in params:
                    params = set(params) | {s_.targets[0].id}
        for _ in range(3):
            for s_ in _ast.walk(fnode):
                if isinstance(s_, _ast.Assign) and len(s_.targets) == 1 and isinstance(s_.targets[0], _ast.Name) and s_.targets[0].id not in tainted:
                    v_ = s_.value
                    if any(isinstance(x, _ast.Attribute) and x.attr == "dtype" for x in _ast.walk(v_)) and from_image(v_, tainted):
                        tainted.add(s_.targets[0].id)
        for c in _ast.walk(fnode):
            if isinstance(c, _ast.Call):
                cand = []
                if isinstance(c.func, _ast.Attribute) and c.func.attr == "astype" and c.args:
                    cand.append(c.args[0])
                d_ = kwarg(c, "dtype")
                if d_ is not None:
                    cand.append(d_)
                if any(from_image(e, tainted) for e in cand):
                    out.append(c)
        return out

    fx = _ast.parse("def f(field):\n    acc = np.zeros_like(field.data)\n    ok = np.zeros_like(field.data, dtype=float)\n    dt = np.result_type(field.data.dtype, np.float32)\n    return acc, ok.astype(dt)\n").body[0]
    if len(sites(fx, {"field"})) != 2:
        from ..model import AnalysisError

        raise AnalysisError("DTYPE fixture was not flagged exactly once — rule is blind", rule)
    m = ctx.model
    n = 0
    for q in quals:
        if not m.has_func(q):
            continue
        fi = m.func(q)
        bad = sites(fi.node, set(fi.all_params) if image_params is None else set(fi.all_params) & set(image_params))
        n += 1
        ctx.decide(not bad, rule, fi.qualname + ":accumulators", (fi, bad[0]) if bad else fi, "no working array inherits the image's dtype",
                   f"`{U(bad[0])[:60] if bad else ''}` creates a working array in the image's own dtype: for a float32 or integer image the values accumulated in it (wave numbers, sums) "
                   "are rounded to that dtype or the in-place update raises, so the result is not the one of the same image stored as float64")
    return n


def check_mode_order_in_length_scale(ctx, rule="PERMINV"):
    """get_length_scale receives the spectrum as two arrays in the flattened order of the FFT modes.  Only order-free uses
    (max, min, sum, moments, a smoother over all points) are independent of how the axes are ordered: `k_mag[1]` is "the
    fundamental of the last axis", not the smallest wave number of the box."""
    import ast as _ast

    m = ctx.model
    fi = m.func(LS)
    fv = view(m, fi)
    arrays = set()
    for s_ in fv.statements():
        if isinstance(s_, _ast.Assign) and isinstance(s_.targets[0], _ast.Tuple) and isinstance(s_.value, _ast.Call) and (fv.callee(s_.value) or U(s_.value.func)).endswith("get_structure_factor"):
            arrays |= {e.id for e in s_.targets[0].elts if isinstance(e, _ast.Name)}
    picked = []
    for n_ in _ast.walk(fi.node):
        if isinstance(n_, _ast.Subscript) and isinstance(n_.ctx, _ast.Load) and isinstance(n_.value, _ast.Name) and n_.value.id in arrays \
                and isinstance(n_.slice, (_ast.Constant, _ast.UnaryOp)):
            picked.append(n_)
    if not arrays:
        ctx.undecided(rule, LS + ":mode-order", fi, "spectrum arrays not found")
        return 0
    ctx.decide(not picked, rule, LS + ":mode-order", (fi, picked[0]) if picked else fi, "no single element of the flattened mode arrays is singled out",
               f"`{U(picked[0]) if picked else ''}` picks one element of the flattened spectrum: which mode that is depends on the order of the axes (the first non-zero mode is the fundamental of the *last* "
               "axis), so the length scale of a pattern along a longer axis is clipped or changed when the box is not cubic")
    return 1
