"""EMPTY — may-be-empty collections must not reach empty-intolerant sinks unguarded.

Typestate {maybe-empty, non-empty} on a collection name inside one function:
  sources  – parameters that are collections (emulsion, tracks_alive, …), lists filled by
             a *conditional* append inside a loop, label counts of ``ndimage.label``;
  guards   – ``if x:`` / ``if len(x) > 0`` / ``if not x: return|raise`` /
             ``if len(x) == 0: return|raise`` / ``if n == 0: return`` dominating the sink;
  sinks    – ``scipy.spatial.distance.cdist``, ``np.argmin/argmax``, ``ndimage``
             measurements with ``index=``, ``grid.transform`` of measured positions.
"""

from __future__ import annotations

import ast

from ..astutil import U, view, kwarg, names_in, stmt_index, compare_parts
from ..cfg import walk_no_nested
from ..model import dotted

IMG = "droplets.image_analysis"


def nonempty_guard(test, name, polarity: bool, exact: bool = False):
    """Does ``test`` (taken with ``polarity``) establish that ``name`` is non-empty?
    Handles conjunctions for positive polarity and disjunctions for negative polarity."""
    if isinstance(test, ast.BoolOp):
        if isinstance(test.op, ast.And) and polarity:
            return any(nonempty_guard(v, name, True, exact) for v in test.values)
        if isinstance(test.op, ast.Or) and not polarity:
            return any(nonempty_guard(v, name, False, exact) for v in test.values)
        return False
    if isinstance(test, ast.UnaryOp) and isinstance(test.op, ast.Not):
        return nonempty_guard(test.operand, name, not polarity, exact)
    if isinstance(test, ast.Name) and test.id == name:
        return polarity
    cp = compare_parts(test)
    if cp:
        l, op, r = cp
        is_len = isinstance(l, ast.Call) and dotted(l.func) == "len" and l.args and U(l.args[0]) == name
        if is_len and isinstance(r, ast.Constant) and isinstance(r.value, int):
            k = r.value
            if exact and polarity:
                # equivalent to "not empty", not merely implying it (len(x) > 1 is false for a collection of one)
                return (isinstance(op, ast.Gt) and k == 0) or (isinstance(op, ast.GtE) and k == 1) or (isinstance(op, ast.NotEq) and k == 0)
            if polarity:
                return (isinstance(op, ast.Gt) and k >= 0) or (isinstance(op, ast.GtE) and k >= 1) or (isinstance(op, ast.NotEq) and k == 0)
            return (isinstance(op, ast.Eq) and k == 0) or (isinstance(op, ast.Lt) and k == 1) or (isinstance(op, ast.LtE) and k == 0)
    return False


def guarded_nonempty(fv, node, name) -> bool:
    """``node`` (stmt/expr) executes only when ``name`` is known non-empty."""
    si = stmt_index(fv)
    # enclosing if-branches
    for test, pol in si.guards(node):
        if nonempty_guard(test, name, pol):
            return True
    # earlier `if <empty>: return/raise/continue` that dominates
    st = si.statement(node)
    for s in fv.statements():
        if isinstance(s, ast.If) and s.body and isinstance(s.body[-1], (ast.Return, ast.Raise, ast.Continue, ast.Break)):
            if nonempty_guard(s.test, name, False) and fv.dominates(s, st) and not any(x is st for x in ast.walk(s)):
                # the name must not be re-bound/extended in between: conservative – no assignment to it after the guard
                return True
    return False


def check_label_callers(ctx):
    """every caller of ndimage.label returns an empty emulsion when nothing was labelled"""
    m = ctx.model
    n = 0
    for fi in m.all_functions():
        if fi.module.name != IMG:
            continue
        fv = view(m, fi)
        for c in fv.calls():
            if (fv.callee(c) or "") != "scipy.ndimage.label":
                continue
            n += 1
            site = f"{fi.qualname}:label"
            si = stmt_index(fv)
            st = si.statement(c)
            cnt = None
            if isinstance(st, ast.Assign) and isinstance(st.targets[0], ast.Tuple) and len(st.targets[0].elts) == 2 and isinstance(st.targets[0].elts[1], ast.Name):
                cnt = st.targets[0].elts[1].id
            if cnt is None:
                ctx.undecided("EMPTY", site, (fi, c), "label count not bound")
                continue
            ok = False
            for s in fv.statements():
                if isinstance(s, ast.If):
                    cp = compare_parts(s.test)
                    if cp and U(cp[0]) == cnt and isinstance(cp[2], ast.Constant) and cp[2].value == 0 and isinstance(cp[1], (ast.Eq, ast.LtE)):
                        rets = [x for x in s.body if isinstance(x, ast.Return)]
                        if rets and isinstance(rets[0].value, ast.Call) and U(rets[0].value.func).endswith("Emulsion.empty"):
                            # must dominate all later measurement calls
                            later = [c2 for c2 in fv.calls() if (fv.callee(c2) or "").startswith("scipy.ndimage.") and c2 is not c]
                            ok = all(fv.dominates(s, c2) for c2 in later)
            ctx.decide(ok, "EMPTY", site, (fi, c), f"`{cnt} == 0` returns Emulsion.empty(…) before any per-label measurement",
                       f"an image without any cluster (`{cnt} == 0`) is not answered with an empty emulsion before the per-label measurements")
    return n


def check_filtered_indices(ctx):
    """lists filled conditionally that reach ndimage measurements / transform"""
    m = ctx.model
    n = 0
    for fi in m.all_functions():
        if fi.module.name != IMG:
            continue
        fv = view(m, fi)
        si = stmt_index(fv)
        # candidates: name = [] ... name.append(...) under an `if` inside a loop
        cands = set()
        for s in fv.statements():
            if isinstance(s, ast.Assign) and isinstance(s.value, ast.List) and not s.value.elts and isinstance(s.targets[0], ast.Name):
                nm = s.targets[0].id
                for c in fv.calls():
                    if isinstance(c.func, ast.Attribute) and c.func.attr == "append" and U(c.func.value) == nm:
                        lpq_ = si.enclosing(c, (ast.For, ast.While))
                        # explicit `if` around the append or an earlier `if …: continue` of the same loop body
                        g = [t for t, _p in si.effective_guards(c) if lpq_ is not None and any(x is t for x in ast.walk(lpq_[0]))]
                        if g and lpq_:
                            cands.add(nm)
        for nm in sorted(cands):
            for c in fv.calls():
                name = fv.callee(c) or ""
                idx = kwarg(c, "index")
                if name.startswith("scipy.ndimage.") and idx is not None and U(idx) == nm:
                    n += 1
                    site = f"{fi.qualname}:{name.split('.')[-1]}(index={nm})"
                    ok = guarded_nonempty(fv, c, nm)
                    ctx.decide(ok, "EMPTY", site, (fi, c), f"`{nm}` is known non-empty here",
                               f"`{nm}` is filled only for clusters passing a filter and may be empty; it reaches `{U(c)[:60]}` (and the coordinate transform of its result) unguarded: an image whose clusters all fail the filter raises instead of yielding an empty emulsion")
    return n


def check_cdist(ctx, qual="droplets.droplet_tracks.DropletTrackList.from_emulsion_time_course"):
    """cdist / argmin need both point sets non-empty"""
    m = ctx.model
    outer = m.func(qual)
    n = 0
    for fi in m.all_functions():
        if fi.parent is not outer and fi is not outer:
            continue
        fv = view(m, fi)
        for c in fv.calls():
            name = fv.callee(c) or ""
            if not name.endswith("distance.cdist"):
                continue
            site = f"{fi.qualname}:cdist"
            srcs = []
            for a in c.args[:2]:
                ex = fv.expand(a, c)
                col = None
                if isinstance(ex, (ast.ListComp, ast.GeneratorExp)) and len(ex.generators) == 1:
                    col = U(ex.generators[0].iter)
                elif isinstance(ex, ast.Name):
                    col = ex.id
                srcs.append(col)
            for k, col in enumerate(srcs):
                n += 1
                tag = f"{site}:arg{k}"
                if col is None:
                    ctx.undecided("EMPTY", tag, (fi, c), "point set not traced to a collection")
                    continue
                if isinstance(fv.expand(c.args[k], c), (ast.ListComp, ast.GeneratorExp)) and fv.expand(c.args[k], c).generators[0].ifs:
                    ctx.violate("INDEX", f"{site}:arg{k}:unfiltered", (fi, c),
                                f"the points handed to cdist are a *filtered* selection of `{col}`, but the rows/columns of the distance matrix are used as indices into `{col}` itself: "
                                "after the first skipped member every match is applied to the wrong track or droplet")
                ok = guarded_nonempty(fv, c, col)
                if k == 0 and all(x is not None for x in srcs):
                    # the matching block may be skipped only because a point set is empty: any further condition (a cut-off value,
                    # a flag) skips matches that the documented rule makes
                    si_ = stmt_index(fv)
                    extra_ = []
                    for t_, pol_ in si_.guards(c):
                        if not pol_:
                            continue
                        parts_ = t_.values if isinstance(t_, ast.BoolOp) and isinstance(t_.op, ast.And) else [t_]
                        for part_ in parts_:
                            if not any(nonempty_guard(part_, col_, True) for col_ in srcs):
                                extra_.append(part_)
                    ctx.decide(not extra_, "EMPTY", f"{site}:only-emptiness", (fi, c), "distance matching is skipped only for an empty point set",
                               f"distance matching is also skipped when `{U(extra_[0]) if extra_ else ''}` fails: pairs the documented rule links (distance <= cut-off, e.g. distance 0 for a cut-off of 0) are not linked")
                ctx.decide(ok, "EMPTY", tag, (fi, c), f"`{col}` is known non-empty when the distance matrix is built",
                           f"the points of `{col}` may be empty (a frame without droplets / no alive track) when `{U(c)[:50]}` is evaluated: cdist raises ValueError for an empty point set")
    return n


def check_optional_dim(ctx, rule="EMPTY"):
    """An emulsion without droplets (the frame of a field in which nothing was located) has no layout: its `.dim`, `.dtype`
    and `.interface_width` are None.  A consistency check of the time-course code that raises when such an attribute differs
    from an expected value must exempt the layout-less emulsion, otherwise recording a frame without droplets aborts."""
    import re
    from ..astutil import canon_guards

    m = ctx.model
    n = 0
    for fi in m.all_functions():
        if fi.cls is None or fi.cls.name != "EmulsionTimeCourse" or fi.name not in ("append", "extend", "__init__"):
            continue
        fv = view(m, fi)
        si = stmt_index(fv)
        raises = [s_ for s_ in fv.statements() if isinstance(s_, ast.Raise)]
        bad = None
        for r in raises:
            g = canon_guards(si, r, expand=lambda t, at: fv.expand(t, at, allow_mutated=True, stop=tuple(fi.all_params)))
            for txt, pol in g:
                mm = re.search(r"\b(\w+)\.(dim|dtype)\b", txt)
                if not mm or " is None" in txt or "len(" in txt:
                    continue
                var, attr = mm.group(1), mm.group(2)
                if var == "self" or " == " not in txt and " != " not in txt:
                    continue
                if pol:
                    continue  # raising when the attribute *equals* something is not a layout-consistency check
                exempt = any((t2 == f"{var}.{attr} is None" and not p2) or (t2 == var and p2) or (re.fullmatch(rf"0 < len\({var}\)", t2) and p2) or (t2 == f"len({var}) == 0" and not p2) for t2, p2 in g)
                if not exempt and bad is None:
                    bad = (r, txt, var, attr)
        n += 1
        ctx.decide(bad is None, rule, f"{fi.qualname}:layout-less", (fi, bad[0]) if bad else fi, "no consistency check raises for an emulsion without droplets (whose dim/dtype are None)",
                   f"raises when `{bad[1] if bad else ''}` is false without exempting `{bad[2] if bad else ''}.{bad[3] if bad else ''} is None`: an emulsion without droplets has no layout, "
                   "so a frame in which nothing was located after a populated frame aborts the tracker / from_storage with this error")
    return n


def check_slice_stop_index(ctx, rule="BOUNDS"):
    """`find_objects` slices are half-open: `.stop` is one past the last cell of a cluster and equals the axis length when the
    cluster touches the upper boundary.  It may be transformed as a cell-boundary coordinate, but indexing a per-cell array
    (axes_coords, cell volumes, the image) with it raises IndexError for such clusters."""
    m = ctx.model
    n = 0
    for fi in m.all_functions():
        if fi.module.name != IMG or not fi.name.startswith("_locate_droplets_in_mask"):
            continue
        fv = view(m, fi)
        bad = None
        for sub in ast.walk(fi.node):
            if not (isinstance(sub, ast.Subscript) and isinstance(sub.ctx, ast.Load)):
                continue
            if fv.node_of(sub) is None:
                continue
            idx = fv.expand(sub.slice, sub, allow_mutated=True)
            if not (isinstance(idx, ast.Attribute) and idx.attr == "stop"):
                continue
            base = U(fv.expand(sub.value, sub, allow_mutated=True))
            if "axes_coords" in base or "cell_coords" in base or "cell_volume" in base or base.endswith(".data") or "discretization" in base:
                bad = (sub, base)
        n += 1
        ctx.decide(bad is None, rule, f"{fi.qualname}:slice-stop", (fi, bad[0]) if bad else fi, "no per-cell array is indexed with the exclusive end of a cluster slice",
                   f"`{U(bad[0])[:60] if bad else ''}` indexes the per-cell array `{bad[1][:40] if bad else ''}` with a slice's `.stop` (one past the last cell): for a cluster that reaches the last cell "
                   "of the axis this is out of range and IndexError escapes the locator (a dense region touching the outer boundary, a homogeneous field above the threshold)")
    return n


# -------------------------------------------------------------------------------------------------- round 11
def _atoms(test, value):
    """[(text, truth)] atomic facts implied by ``test`` having the truth value ``value``"""
    from ..astutil import U
    if isinstance(test, ast.UnaryOp) and isinstance(test.op, ast.Not):
        return _atoms(test.operand, not value)
    if isinstance(test, ast.BoolOp):
        if (isinstance(test.op, ast.And) and value) or (isinstance(test.op, ast.Or) and not value):
            out = [(U(test), value)]
            for v in test.values:
                out += _atoms(v, value)
            return out
    return [(U(test), value)]


def possibly_unbound(model, fi, limit=3000):
    """[(name, use node, description)] — reads of a local variable that some *feasible-looking* acyclic path reaches without
    passing any binding of the name (UnboundLocalError at run time).  Two stages: a definite-assignment dataflow (must
    analysis over the statement CFG, exception edges included with the state *before* the raising statement) selects the
    candidates; each candidate is then confirmed by path enumeration, discarding paths that decide the same test text both
    ways while none of its names was rebound in between (correlated guards) and paths that run a loop zero times when the loop
    iterates over a literal, non-empty sequence."""
    from ..astutil import view, U, names_in
    from ..cfg import CFG, walk_no_nested

    fv = view(model, fi)
    cfg = fv.cfg
    locals_ = set()
    for n in cfg.nodes:
        locals_.update(x for x in CFG.defs_of(n) if "." not in x)
    params = set(fi.all_params)
    a_ = fi.node.args
    params |= {x.arg for x in (a_.vararg, a_.kwarg) if x is not None} | {x.arg for x in a_.posonlyargs + a_.args + a_.kwonlyargs}
    declared = set()
    for x in walk_no_nested(fi.node):
        if isinstance(x, (ast.Global, ast.Nonlocal)):
            declared.update(x.names)
    locals_ -= params | declared
    if not locals_:
        return []
    full = frozenset(locals_)
    IN = {n: full for n in cfg.nodes}
    IN[cfg.entry] = frozenset()
    changed = True
    while changed:
        changed = False
        for n in cfg.nodes:
            if n is cfg.entry:
                continue
            acc = None
            for p, lab in n.pred:
                out = IN[p] if lab == "exc" else IN[p] | frozenset(x for x in CFG.defs_of(p) if x in locals_)
                acc = out if acc is None else acc & out
            acc = acc if acc is not None else full
            if acc != IN[n]:
                IN[n] = acc
                changed = True

    def reads(node):
        roots = fv._roots(node)
        out = []
        for r in roots:
            for x in walk_no_nested(r):
                if isinstance(x, ast.Name) and isinstance(x.ctx, ast.Load) and x.id in locals_:
                    out.append(x)
        return out

    # heads of while loops (their test node): like for loops, leaving one without entering it is not a branch this rule judges
    while_heads = {}
    for w in walk_no_nested(fi.node):
        if isinstance(w, ast.While):
            hn = cfg.node_of_stmt.get(id(w)) if hasattr(cfg, "node_of_stmt") else None
            if hn is not None:
                while_heads[id(hn)] = w
    found = []
    for n in cfg.nodes:
        if n.stmt is None:
            continue
        own_defs = set(CFG.defs_of(n))
        for x in reads(n):
            if x.id in IN[n]:
                continue
            # comprehension / lambda locals are not function locals
            if any(isinstance(c, (ast.ListComp, ast.SetComp, ast.DictComp, ast.GeneratorExp)) and any(x.id in names_in(g.target) for g in c.generators) for c in ast.walk(n.stmt)):
                continue
            # a walrus inside a comprehension binds the name while the comprehension runs
            if any(isinstance(c, (ast.ListComp, ast.SetComp, ast.DictComp, ast.GeneratorExp)) and any(isinstance(w, ast.NamedExpr) and w.target.id == x.id for w in ast.walk(c))
                   and any(y is x for y in ast.walk(c)) for c in ast.walk(n.stmt)):
                continue
            # confirm by paths
            try:
                paths = cfg.paths(cfg.entry, {n}, limit=limit)
            except RuntimeError:
                continue
            for p in paths:
                if p[-1][0] is not n:
                    continue
                bound = False
                decided = {}
                feasible = True
                for k, (node, _lab) in enumerate(p[:-1]):
                    nxt = p[k + 1][1]
                    if node.kind == "test" and node.stmt is not None and nxt in ("T", "F"):
                        for txt, val in _atoms(node.stmt, nxt == "T"):
                            if txt in decided and decided[txt] != val:
                                feasible = False
                                break
                            decided[txt] = val
                        if not feasible:
                            break
                    if node.kind == "test" and nxt == "F" and id(node) in while_heads and not any(q is node for q, _ in p[:k]):
                        inner = {sub.id for sub in ast.walk(while_heads[id(node)]) if isinstance(sub, ast.Name) and isinstance(sub.ctx, ast.Store)}
                        if x.id in inner:
                            bound = True
                            break
                    if node.kind == "loop" and nxt == "done" and not any(q is node for q, _ in p[:k]) and node.stmt is not None:
                        # acyclic paths leave a loop only without entering it; whether its sequence can be empty is not known here
                        # (EMPTY decides that for the sequences that matter), so everything the loop body may bind counts as bound:
                        # this rule only speaks about branches
                        inner = set()
                        for sub in ast.walk(node.stmt):
                            if isinstance(sub, ast.Name) and isinstance(sub.ctx, ast.Store):
                                inner.add(sub.id)
                        if x.id in inner:
                            bound = True
                            break
                    ds = CFG.defs_of(node)
                    if nxt != "exc" and x.id in ds:
                        bound = True
                        break
                    for d in ds:
                        for t in [t for t in decided if d in names_in(ast.parse(t, mode="eval"))]:
                            decided.pop(t, None)
                if feasible and not bound:
                    found.append((x.id, x, "path: " + " → ".join(f"{q.kind}@{q.line}{'[' + lab + ']' if lab else ''}" for q, lab in p[-6:])))
                    break
    return found


def check_unbound(ctx, rule="UNBOUND"):
    """no function of the package reads a local variable on a path on which it was never bound (UnboundLocalError escapes the
    public entry points for exactly the inputs that take that path, e.g. an image whose clusters all miss the origin)"""
    m = ctx.model
    n_fn = 0
    bad_all = []
    for fi in m.all_functions():
        if not fi.qualname.startswith("droplets."):
            continue
        try:
            bad = possibly_unbound(m, fi)
        except Exception:  # a construct the CFG builder does not model: not decided for this function
            continue
        n_fn += 1
        seen = set()
        for name, use, desc in bad:
            if (fi.qualname, name) in seen:
                continue
            seen.add((fi.qualname, name))
            bad_all.append((fi, name, use, desc))
    for fi, name, use, desc in bad_all:
        ctx.violate(rule, f"{fi.qualname}:{name}", (fi, use), f"`{name}` is read here although a path reaches this statement without binding it ({desc}): UnboundLocalError for the inputs "
                    "that take this path — the analysis aborts instead of returning a result")
    if not bad_all:
        ctx.hold(rule, "droplets:locals-bound", next(iter(m.all_functions())), f"every read of a local variable in {n_fn} functions is preceded by a binding on every branch path")
    return n_fn


def check_amplitude_reductions(ctx, rule="EMPTY"):
    """the amplitude vector of a perturbed droplet may be empty (`amplitudes=None` is the constructor's default): a reduction
    without identity (`max`, `min`, `argmax`, `argmin`, `ptp` and their nan-variants) over it raises ValueError for exactly
    those droplets — rendering or refining an unperturbed member of a perturbed class then aborts"""
    m = ctx.model
    NOID = {"max", "min", "amax", "amin", "argmax", "argmin", "nanmax", "nanmin", "nanargmax", "nanargmin", "ptp"}
    base = m.cls("PerturbedDropletBase")
    bad = []
    n = 0
    for ci in [base] + m.subclasses(base):
        for name, lst in ci.methods.items():
            for fi in lst:
                if fi.cls is not ci:
                    continue
                n += 1
                for c in ast.walk(fi.node):
                    if not isinstance(c, ast.Call):
                        continue
                    fn = c.func.attr if isinstance(c.func, ast.Attribute) else (c.func.id if isinstance(c.func, ast.Name) else "")
                    if fn not in NOID or any(k.arg in ("initial", "default") for k in c.keywords):
                        continue
                    operand = c.args[0] if (c.args and not (isinstance(c.func, ast.Attribute) and U(c.func.value) not in ("np", "numpy", "math"))) else (c.func.value if isinstance(c.func, ast.Attribute) else None)
                    if operand is None or "amplitudes" not in U(operand):
                        continue
                    # a guard on the number of amplitudes makes the reduction safe
                    bad.append((fi, c))
    fv_guarded = []
    for fi, c in bad:
        fv = view(m, fi)
        si = stmt_index(fv)
        g = [U(t) for t, _p in si.effective_guards(c)]
        if any("len(self.amplitudes)" in t or "self.amplitudes.size" in t or "self.modes" in t for t in g):
            fv_guarded.append((fi, c))
    bad = [b for b in bad if b not in fv_guarded]
    if bad:
        fi, c = bad[0]
        ctx.violate(rule, f"{fi.qualname}:amplitude-reduction", (fi, c), f"`{U(c)[:60]}` reduces the amplitude vector without an identity: for a droplet without amplitudes (the constructor's default) "
                    "numpy raises `zero-size array to reduction operation`, so the droplet cannot be rendered / refined")
    else:
        ctx.hold(rule, "PerturbedDropletBase:amplitude-reductions", base.node, f"no identity-less reduction over the (possibly empty) amplitude vector in {n} methods")
    return 1
