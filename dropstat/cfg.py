"""Statement-level control-flow graph for one function body, with dominators,
post-dominators, reaching definitions and acyclic path enumeration.

Nodes are small objects wrapping one simple statement or one branch test. Compound
statements are decomposed. Nested function/class definitions are single nodes (a
definition of their name); their bodies get their own CFG.
"""

from __future__ import annotations

import ast
from dataclasses import dataclass, field


@dataclass(eq=False)
class Node:
    kind: str  # entry|exit|stmt|test|loop|handler|with
    stmt: ast.AST | None = None  # statement or test expression
    label: str = ""
    succ: list = field(default_factory=list)  # list[(Node, edge_label)]
    pred: list = field(default_factory=list)
    idx: int = -1

    @property
    def line(self):
        return getattr(self.stmt, "lineno", 0)

    def __repr__(self):
        if self.stmt is not None:
            try:
                txt = ast.unparse(self.stmt).split("\n")[0][:60]
            except Exception:  # pragma: no cover
                txt = "?"
        else:
            txt = ""
        return f"<{self.kind}@{self.line} {txt}>"


class CFG:
    def __init__(self, body: list, own: ast.AST | None = None):
        self.nodes: list[Node] = []
        self.entry = self._new("entry")
        self.exit = self._new("exit")
        self.raise_exit = self._new("exit", label="raise")
        self._loop_stack: list[tuple[Node, Node]] = []  # (continue target, break target)
        self._handler_stack: list[list[Node]] = []
        self.node_of_stmt: dict[int, Node] = {}
        ends = self._block(body, [(self.entry, "")])
        for n, lab in ends:
            self._edge(n, self.exit, lab)
        for i, n in enumerate(self.nodes):
            n.idx = i

    # -------------------------------------------------------------- building
    def _new(self, kind, stmt=None, label=""):
        n = Node(kind, stmt, label)
        self.nodes.append(n)
        if stmt is not None:
            self.node_of_stmt.setdefault(id(stmt), n)
        return n

    def _edge(self, a: Node, b: Node, label=""):
        a.succ.append((b, label))
        b.pred.append((a, label))

    def _link(self, preds, node):
        for p, lab in preds:
            self._edge(p, node, lab)

    def _exc_edges(self, node):
        if self._handler_stack:
            for h in self._handler_stack[-1]:
                self._edge(node, h, "exc")

    def _block(self, stmts, preds):
        """Return list of (node, label) dangling out-edges."""
        for s in stmts:
            preds = self._stmt(s, preds)
        return preds

    def _stmt(self, s, preds):
        if isinstance(s, ast.If):
            t = self._new("test", s.test)
            self.node_of_stmt[id(s)] = t
            self._link(preds, t)
            self._exc_edges(t)
            out = self._block(s.body, [(t, "T")])
            if s.orelse:
                out += self._block(s.orelse, [(t, "F")])
            else:
                out.append((t, "F"))
            return out
        if isinstance(s, (ast.For, ast.AsyncFor)):
            head = self._new("loop", s)
            self._link(preds, head)
            self._exc_edges(head)
            after = self._new("stmt", None, label="after-loop")
            self._loop_stack.append((head, after))
            ends = self._block(s.body, [(head, "iter")])
            self._loop_stack.pop()
            for n, lab in ends:
                self._edge(n, head, lab)
            if s.orelse:
                ends2 = self._block(s.orelse, [(head, "done")])
                self._link(ends2, after)
            else:
                self._edge(head, after, "done")
            return [(after, "")]
        if isinstance(s, ast.While):
            head = self._new("test", s.test)
            self.node_of_stmt[id(s)] = head
            self._link(preds, head)
            after = self._new("stmt", None, label="after-loop")
            self._loop_stack.append((head, after))
            ends = self._block(s.body, [(head, "T")])
            self._loop_stack.pop()
            for n, lab in ends:
                self._edge(n, head, lab)
            const_true = isinstance(s.test, ast.Constant) and bool(s.test.value)
            if not const_true:
                if s.orelse:
                    ends2 = self._block(s.orelse, [(head, "F")])
                    self._link(ends2, after)
                else:
                    self._edge(head, after, "F")
            return [(after, "")]
        if isinstance(s, ast.Try):
            handlers = [self._new("handler", h) for h in s.handlers]
            self._handler_stack.append(handlers)
            start = self._new("stmt", None, label="try")
            self._link(preds, start)
            self._exc_edges(start)
            ends = self._block(s.body, [(start, "")])
            self._handler_stack.pop()
            if s.orelse:
                ends = self._block(s.orelse, ends)
            out = list(ends)
            for hn, h in zip(handlers, s.handlers):
                out += self._block(h.body, [(hn, "")])
            if s.finalbody:
                out = self._block(s.finalbody, out)
            return out
        if isinstance(s, (ast.With, ast.AsyncWith)):
            w = self._new("with", s)
            self._link(preds, w)
            self._exc_edges(w)
            return self._block(s.body, [(w, "")])
        if isinstance(s, ast.Return):
            n = self._new("stmt", s)
            self._link(preds, n)
            self._exc_edges(n)
            self._edge(n, self.exit, "return")
            return []
        if isinstance(s, ast.Raise):
            n = self._new("stmt", s)
            self._link(preds, n)
            if self._handler_stack:
                self._exc_edges(n)
            else:
                self._edge(n, self.raise_exit, "raise")
            return []
        if isinstance(s, ast.Break):
            n = self._new("stmt", s)
            self._link(preds, n)
            self._edge(n, self._loop_stack[-1][1], "break")
            return []
        if isinstance(s, ast.Continue):
            n = self._new("stmt", s)
            self._link(preds, n)
            self._edge(n, self._loop_stack[-1][0], "continue")
            return []
        n = self._new("stmt", s)
        self._link(preds, n)
        self._exc_edges(n)
        return [(n, "")]

    # -------------------------------------------------------------- analyses
    def reachable(self):
        seen, work = set(), [self.entry]
        while work:
            n = work.pop()
            if n in seen:
                continue
            seen.add(n)
            work.extend(m for m, _ in n.succ)
        return seen

    def _dom(self, start, succ_attr, pred_attr, exclude_exc=True):
        nodes = [n for n in self.nodes]
        full = set(nodes)
        dom = {n: set(full) for n in nodes}
        dom[start] = {start}
        changed = True
        while changed:
            changed = False
            for n in nodes:
                if n is start:
                    continue
                ps = [p for p, lab in getattr(n, pred_attr) if not (exclude_exc and lab == "exc")]
                if not ps:
                    new = {n}
                else:
                    new = set.intersection(*(dom[p] for p in ps)) | {n}
                if new != dom[n]:
                    dom[n] = new
                    changed = True
        return dom

    def dominators(self):
        """dom[n] = set of nodes dominating n (exception edges ignored)."""
        return self._dom(self.entry, "succ", "pred")

    def post_dominators(self):
        """pdom[n] = nodes post-dominating n with respect to the normal exit."""
        return self._dom(self.exit, "pred", "succ")

    def dominates(self, a: Node, b: Node, dom=None) -> bool:
        dom = dom or self.dominators()
        return a in dom[b]

    def node_for(self, stmt) -> Node | None:
        return self.node_of_stmt.get(id(stmt))

    # reaching definitions --------------------------------------------------
    @staticmethod
    def defs_of(node: Node) -> list:
        """Names (and attribute paths on Names) defined by this node."""
        s = node.stmt
        out = []
        if s is None:
            return out

        def targets(t):
            if isinstance(t, ast.Name):
                out.append(t.id)
            elif isinstance(t, (ast.Tuple, ast.List)):
                for e in t.elts:
                    targets(e)
            elif isinstance(t, ast.Starred):
                targets(t.value)

        if node.kind == "loop":
            targets(s.target)
        elif node.kind == "with":
            for it in s.items:
                if it.optional_vars is not None:
                    targets(it.optional_vars)
        elif node.kind == "handler":
            if s.name:
                out.append(s.name)
        elif isinstance(s, ast.Assign):
            for t in s.targets:
                targets(t)
        elif isinstance(s, (ast.AugAssign, ast.AnnAssign)):
            if isinstance(s, ast.AnnAssign) and s.value is None:
                return out
            targets(s.target)
        elif isinstance(s, (ast.FunctionDef, ast.AsyncFunctionDef, ast.ClassDef)):
            out.append(s.name)
        elif isinstance(s, (ast.Import, ast.ImportFrom)):
            for a in s.names:
                out.append((a.asname or a.name).split(".")[0])
        # walrus inside expressions
        if node.kind == "loop":
            roots = [s.iter]
        elif node.kind == "with":
            roots = [i.context_expr for i in s.items]
        elif node.kind == "handler" or isinstance(s, (ast.FunctionDef, ast.AsyncFunctionDef, ast.ClassDef)):
            roots = []
        else:
            roots = [s]
        for root in roots:
            for sub in walk_no_nested(root):
                if isinstance(sub, ast.NamedExpr) and isinstance(sub.target, ast.Name):
                    out.append(sub.target.id)
        return out

    def reaching_definitions(self, params=()):
        """Return (IN, gen): IN[node] = dict name -> frozenset of def nodes.
        Parameters are defined at entry."""
        gen = {n: set(self.defs_of(n)) for n in self.nodes}
        IN = {n: {} for n in self.nodes}
        OUT = {n: {} for n in self.nodes}
        OUT[self.entry] = {p: frozenset([self.entry]) for p in params}
        work = list(self.nodes)
        while work:
            n = work.pop(0)
            if n is self.entry:
                out = OUT[n]
            else:
                inn: dict = {}
                for p, _ in n.pred:
                    for k, v in OUT[p].items():
                        inn[k] = inn.get(k, frozenset()) | v
                IN[n] = inn
                out = dict(inn)
                for name in gen[n]:
                    out[name] = frozenset([n])
            if out != OUT[n] or n is self.entry:
                changed = out != OUT[n]
                OUT[n] = out
                if changed or n is self.entry:
                    for m, _ in n.succ:
                        if m not in work:
                            work.append(m)
        return IN, gen

    # paths -------------------------------------------------------------------
    def paths(self, start: Node, stop: set, limit: int = 4000, follow_exc=False):
        """Enumerate acyclic paths (lists of (node, edge_label_taken)) from ``start``
        until a node in ``stop`` is reached (inclusive) or no successor remains."""
        out = []
        stack = [(start, [(start, "")], {start})]
        while stack:
            n, path, seen = stack.pop()
            if n in stop and n is not start:
                out.append(path)
                continue
            succ = [(m, lab) for m, lab in n.succ if follow_exc or lab != "exc"]
            if not succ:
                out.append(path)
                continue
            for m, lab in succ:
                if m in seen and m not in stop:
                    continue
                stack.append((m, path + [(m, lab)], seen | {m}))
                if len(stack) + len(out) > limit:
                    raise RuntimeError("path explosion")
        return out


def walk_no_nested(node):
    """ast.walk that does not descend into nested function/class definitions or
    lambdas (the root itself is always expanded)."""
    todo = [node]
    first = True
    while todo:
        n = todo.pop()
        if not first and isinstance(n, (ast.FunctionDef, ast.AsyncFunctionDef, ast.ClassDef, ast.Lambda)):
            yield n
            continue
        first = False
        yield n
        todo.extend(ast.iter_child_nodes(n))


def body_statements(body):
    """All statements in a body, recursively through compound statements but not into
    nested definitions."""
    for s in body:
        yield s
        if isinstance(s, (ast.FunctionDef, ast.AsyncFunctionDef, ast.ClassDef)):
            continue
        for fld in ("body", "orelse", "finalbody"):
            sub = getattr(s, fld, None)
            if sub:
                yield from body_statements(sub)
        for h in getattr(s, "handlers", []) or []:
            yield from body_statements(h.body)
