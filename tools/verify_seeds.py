#!/venv/bin/python
"""Confirm candidate breaking changes independently of their authors.

For every directory given (containing patch.diff, demo.py, meta.json) a scratch git worktree of
/repo HEAD is created under /tmp, the patch is applied, the full pinned test suite is run, the
demonstration is run with the change (must exit non-zero) and without it (must exit 0), and the
worktree is removed again.  The result is written to <dir>/confirm.json and summarised on stdout.

usage: tools/verify_seeds.py [-j N] dir ...
"""
import json, os, subprocess, sys, tempfile, shutil
from concurrent.futures import ThreadPoolExecutor

PY = "/venv/bin/python"


def sh(cmd, cwd=None, env=None, timeout=1800):
    r = subprocess.run(cmd, cwd=cwd, env=env, capture_output=True, text=True, timeout=timeout)
    return r.returncode, (r.stdout + r.stderr)


def confirm(d):
    d = os.path.abspath(d)
    res = {"dir": d}
    wt = tempfile.mkdtemp(prefix="vseed_")
    os.rmdir(wt)
    head = sh(["git", "-C", "/repo", "rev-parse", "--short", "HEAD"])[1].strip()
    try:
        rc, out = sh(["git", "-C", "/repo", "worktree", "add", "-q", "--detach", wt, "HEAD"])
        if rc:
            res["error"] = "worktree: " + out[-300:]
            return res
        env = dict(os.environ, PYTHONPATH=wt, PYTHONDONTWRITEBYTECODE="1", MPLBACKEND="Agg", NUMBA_CACHE_DIR=os.path.join(wt, ".numba"))
        rc, out = sh(["git", "-C", wt, "apply", os.path.join(d, "patch.diff")])
        res["patch_applies"] = rc == 0
        if rc:
            res["error"] = out[-300:]
            return res
        touched = sh(["git", "-C", wt, "diff", "--name-only"])[1].split()
        res["files"] = touched
        res["touches_tests"] = any(t.startswith("tests/") for t in touched)
        rc, out = sh([PY, "-m", "pytest", "-q", "-p", "no:cacheprovider", "--timeout=900"], cwd=wt, env=env)
        res["tests_rc"] = rc
        res["tests_with_change"] = out.strip().splitlines()[-1] if out.strip() else ""
        try:
            rc, out = sh([PY, os.path.join(d, "demo.py")], cwd=d, env=env, timeout=600)
        except subprocess.TimeoutExpired:
            rc, out = -9, "timeout"
        res["demo_exit_with_change"] = rc
        res["demo_tail_with"] = out.strip()[-400:]
        sh(["git", "-C", wt, "checkout", "--", "."])
        try:
            rc, out = sh([PY, os.path.join(d, "demo.py")], cwd=d, env=env, timeout=600)
        except subprocess.TimeoutExpired:
            rc, out = -9, "timeout"
        res["demo_exit_without"] = rc
        res["demo_tail_without"] = out.strip()[-400:]
        res["head"] = head
        res["ok"] = bool(res["patch_applies"] and res["tests_rc"] == 0 and res["demo_exit_with_change"] != 0
                         and res["demo_exit_without"] == 0 and not res["touches_tests"])
        return res
    finally:
        sh(["git", "-C", "/repo", "worktree", "remove", "--force", wt])
        shutil.rmtree(wt, ignore_errors=True)
        json.dump(res, open(os.path.join(d, "confirm.json"), "w"), indent=1)


def main():
    args = sys.argv[1:]
    j = 4
    if args and args[0] == "-j":
        j = int(args[1]); args = args[2:]
    with ThreadPoolExecutor(j) as ex:
        for res in ex.map(confirm, args):
            print(("OK   " if res.get("ok") else "FAIL ") + res["dir"], {k: res.get(k) for k in
                  ("patch_applies", "tests_with_change", "demo_exit_with_change", "demo_exit_without", "error") if k in res})


if __name__ == "__main__":
    main()
