#!/venv/bin/python
"""Independently confirm candidate seeded changes: in a scratch worktree of /repo HEAD,
(1) the patch applies, (2) the full test suite passes with it, (3) demo.py fails with it,
(4) demo.py passes without it.  Worktrees live under /tmp and are removed afterwards.

usage: tools/verify_seeds.py <dir> [<dir> ...]      (each dir has patch.diff and demo.py)
"""
import json, os, shutil, subprocess, sys
from concurrent.futures import ThreadPoolExecutor

PY = "/venv/bin/python"


def sh(cmd, cwd=None, env=None, timeout=1800):
    r = subprocess.run(cmd, cwd=cwd, env=env, capture_output=True, text=True, timeout=timeout)
    return r.returncode, (r.stdout + r.stderr)


def verify(d):
    d = os.path.abspath(d)
    tag = d.strip("/").replace("/", "_")
    wt = f"/tmp/vs/{tag}"
    res = {"dir": d}
    os.makedirs("/tmp/vs", exist_ok=True)
    sh(["git", "-C", "/repo", "worktree", "remove", "--force", wt])
    rc, out = sh(["git", "-C", "/repo", "worktree", "add", "--detach", wt, "HEAD"])
    if rc:
        res["error"] = out[-300:]
        return res
    try:
        shutil.copy("/repo/droplets/_version.py", f"{wt}/droplets/_version.py")
        env = dict(os.environ, PYTHONPATH=wt, MPLBACKEND="Agg", NUMBA_CACHE_DIR=f"{wt}/.numba")
        rc, out = sh(["git", "apply", os.path.join(d, "patch.diff")], cwd=wt)
        res["applies"] = rc == 0
        if rc:
            rc, out = sh(["git", "apply", "--3way", os.path.join(d, "patch.diff")], cwd=wt)
            res["applies_3way"] = rc == 0
            if rc:
                res["error"] = out[-300:]
                return res
        rc, out = sh([PY, "-m", "pytest", "-q", "-p", "no:cacheprovider", "--timeout=900", "-x"], cwd=wt, env=env)
        res["tests_pass_with_change"] = rc == 0
        res["tests_tail"] = out.strip().splitlines()[-1] if out.strip() else ""
        rc, out = sh([PY, os.path.join(d, "demo.py")], cwd=wt, env=env)
        res["demo_rc_with_change"] = rc
        sh(["git", "checkout", "--", "."], cwd=wt)
        sh(["git", "reset", "-q", "--hard", "HEAD"], cwd=wt)
        rc, out = sh([PY, os.path.join(d, "demo.py")], cwd=wt, env=env)
        res["demo_rc_without"] = rc
        res["confirmed"] = bool(res["tests_pass_with_change"] and res["demo_rc_with_change"] != 0 and res["demo_rc_without"] == 0)
    finally:
        sh(["git", "-C", "/repo", "worktree", "remove", "--force", wt])
        shutil.rmtree(wt, ignore_errors=True)
    return res


if __name__ == "__main__":
    dirs = sys.argv[1:]
    with ThreadPoolExecutor(8) as ex:
        out = list(ex.map(verify, dirs))
    for r in out:
        print(json.dumps(r))
    json.dump(out, open("/tmp/vs_result.json", "w"), indent=1)
    sh(["git", "-C", "/repo", "worktree", "prune"])
