#!/venv/bin/python
"""usage: tools/rebase_variant.py <base commit of /repo the patch was written for> <variant dir>…
Re-creates patch.diff against /repo's current tree by a 3-way merge (git merge-file); conflicts are reported, not resolved."""
import os, re, shutil, subprocess, sys, tempfile

base = sys.argv[1]
for d in sys.argv[2:]:
    d = os.path.realpath(d)
    patch = open(d + "/patch.diff").read()
    files = sorted(set(re.findall(r"^\+\+\+ b/(\S+)", patch, flags=re.M)))
    tmp = tempfile.mkdtemp(prefix="rebase_", dir="/tmp")
    ok = True
    try:
        for f in files:
            os.makedirs(os.path.dirname(f"{tmp}/old/{f}"), exist_ok=True)
            open(f"{tmp}/old/{f}", "w").write(subprocess.run(["git", "-C", "/repo", "show", f"{base}:{f}"], capture_output=True, text=True, check=True).stdout)
        shutil.copytree(tmp + "/old", tmp + "/var")
        r = subprocess.run(["patch", "-p1", "-s", "-f", "-i", d + "/patch.diff"], cwd=tmp + "/var", capture_output=True, text=True)
        if r.returncode != 0:
            print(d, "OLD-PATCH-FAILED", r.stdout[:200])
            continue
        out = []
        for f in files:
            cur = f"/repo/{f}"
            m = subprocess.run(["git", "merge-file", "-p", cur, f"{tmp}/old/{f}", f"{tmp}/var/{f}"], capture_output=True, text=True)
            if m.returncode != 0:
                ok = False
                print(d, "CONFLICT in", f)
                break
            os.makedirs(os.path.dirname(f"{tmp}/a/{f}"), exist_ok=True)
            os.makedirs(os.path.dirname(f"{tmp}/b/{f}"), exist_ok=True)
            shutil.copy(cur, f"{tmp}/a/{f}")
            open(f"{tmp}/b/{f}", "w").write(m.stdout)
            out.append(subprocess.run(["diff", "-u", f"a/{f}", f"b/{f}"], cwd=tmp, capture_output=True, text=True).stdout)
        if ok:
            open(d + "/patch.diff", "w").write("".join(out))
            print(d, "rebased")
    finally:
        shutil.rmtree(tmp)
