#!/venv/bin/python
"""usage: tools/dbgvar.py <variant dir> <prop> [rule…] — all findings of one check on the variant, analysis errors included"""
import os, shutil, subprocess, sys, tempfile
sys.path.insert(0, "/verif")
os.environ["DROPSTAT_NO_EVIDENCE"] = "1"
from dropstat.core import Ctx
from dropstat.model import Model
from dropstat.props import REGISTRY

d, prop = sys.argv[1:3]
rules = set(sys.argv[3:])
tmp = tempfile.mkdtemp(prefix="dbgvar_", dir="/tmp")
try:
    shutil.copytree("/repo/droplets", tmp + "/droplets")
    if d != "-":
        subprocess.run(["patch", "-p1", "-s", "-f", "-i", os.path.realpath(d) + "/patch.diff"], cwd=tmp, check=True)
    ctx = Ctx(Model.from_dir(tmp), prop, "quick")
    try:
        REGISTRY[prop](ctx)
    except Exception as exc:
        print("EXC", type(exc).__name__, exc)
    for f in ctx.findings:
        if f.verdict != "holds" and (not rules or f.rule in rules) or (rules and f.rule in rules):
            print(f.verdict.upper(), f.rule, f.site, f.line, f.detail[:200])
finally:
    shutil.rmtree(tmp)
