#!/venv/bin/python
"""freeze the (rule, site) pairs that are UNDECIDED on the current /repo tree (documented limits of the analysis); any other
undecided obligation makes a silent run fail closed (exit 2).  Run only on the reference tree, after reading each entry."""
import json, os, sys
sys.path.insert(0, "/verif")
os.environ["DROPSTAT_NO_EVIDENCE"] = "1"
from dropstat.core import Ctx, UNDECIDED
from dropstat.model import Model
from dropstat.props import REGISTRY, CLAIMED

model = Model.from_dir("/repo")
out = {}
for prop in CLAIMED:
    for tier in ("quick", "thorough"):
        ctx = Ctx(model, prop, tier)
        REGISTRY[prop](ctx)
        out.setdefault(prop, set()).update((f.rule, f.site) for f in ctx.findings if f.verdict == UNDECIDED)
out = {k: sorted(map(list, v)) for k, v in out.items()}
json.dump(out, open("/verif/dropstat/undecided_baseline.json", "w"), indent=1)
for k, v in out.items():
    for r, s in v:
        print(k, r, s)
