#!/venv/bin/python
"""Try an ad-hoc edit without touching /repo: copy /repo/droplets to a temp dir, replace the first occurrence of OLD by NEW in FILE
(both may contain \\n escapes), run the given checks with --root on the copy and print their non-HOLDS lines.
usage: tools/tryedit.py FILE OLD NEW PROP [PROP ...]"""
import os, shutil, subprocess, sys, tempfile

f, old, new, props = sys.argv[1], sys.argv[2].encode().decode("unicode_escape"), sys.argv[3].encode().decode("unicode_escape"), sys.argv[4:]
tmp = tempfile.mkdtemp(prefix="tryedit_")
try:
    shutil.copytree("/repo/droplets", tmp + "/droplets", ignore=shutil.ignore_patterns("__pycache__", "resources"))
    p = os.path.join(tmp, f)
    s = open(p, encoding="utf-8").read()
    if old not in s:
        sys.exit("OLD not found")
    open(p, "w", encoding="utf-8").write(s.replace(old, new, 1))
    compile(open(p, encoding="utf-8").read(), p, "exec")
    for pr in props:
        r = subprocess.run(["/venv/bin/python", "-m", "dropstat", "check", pr, "--root", tmp], cwd=os.path.dirname(os.path.dirname(os.path.abspath(__file__))),
                           capture_output=True, text=True, env=dict(os.environ, DROPSTAT_NO_EVIDENCE="1"))
        for l in r.stdout.splitlines():
            if "HOLDS" not in l and "KNOWN" not in l and not l.startswith("VIOLATION"):
                print(l[:300])
finally:
    shutil.rmtree(tmp, ignore_errors=True)
