#!/venv/bin/python
"""Systematic behaviour-preserving variants: for every function of /repo/droplets, rename all of its local
variables (not parameters, not globals) consistently, also inside nested functions that read them, and run
all checks on the result (in a scratch copy; /repo is not touched).  Any exit code other than 0 is a false
alarm (1) or an unrecognised idiom (2) of the recognisers.

usage: tools/renamefuzz.py [--style suffix|opaque] [--per-module] [-j N] [module.py ...]
"""
import ast, glob, os, shutil, subprocess, symtable, sys, tempfile
from concurrent.futures import ThreadPoolExecutor

VERIF = os.path.dirname(os.path.dirname(os.path.abspath(__file__)))
PARAMS = False
PROPS = ["C01","C03","C04","C06","C07","C08","C09","C10","C11","C12","C13","C14","C15","C16","C17","C18","C19","C20"]


def scopes(table, prefix="", infunc=False):
    for ch in table.get_children():
        if ch.get_type() == "function":
            yield prefix + ch.get_name(), ch, infunc
            yield from scopes(ch, prefix + ch.get_name() + ".", True)
        elif ch.get_type() == "class":
            yield from scopes(ch, prefix + ch.get_name() + ".", infunc)


class Renamer(ast.NodeTransformer):
    """rename names in `mapping` inside one function node, respecting re-binding in nested scopes"""

    def __init__(self, mapping):
        self.mapping = mapping
        self.blocked = []

    def _nested(self, node):
        # names bound locally in the nested scope (params or assigned, not nonlocal) shadow the outer ones
        bound = set()
        args = node.args
        for a in args.posonlyargs + args.args + args.kwonlyargs + [args.vararg, args.kwarg]:
            if a is not None:
                bound.add(a.arg)
        nonlocal_ = set()
        body = node.body if isinstance(node.body, list) else [node.body]
        for st in body:
            for n in ast.walk(st):
                if isinstance(n, ast.Nonlocal):
                    nonlocal_.update(n.names)
                elif isinstance(n, ast.Name) and isinstance(n.ctx, (ast.Store, ast.Del)):
                    bound.add(n.id)
        bound -= nonlocal_
        self.blocked.append(bound)
        self.generic_visit(node)
        self.blocked.pop()
        return node

    visit_FunctionDef = visit_Lambda = visit_AsyncFunctionDef = _nested

    def _is_blocked(self, name):
        return any(name in b for b in self.blocked)

    def visit_Name(self, node):
        if node.id in self.mapping and not self._is_blocked(node.id):
            node.id = self.mapping[node.id]
        return node

    def visit_Nonlocal(self, node):
        node.names = [self.mapping.get(n, n) for n in node.names]
        return node


def find_func(tree, qual, lineno):
    name = qual.split(".")[-1]
    return [n for n in ast.walk(tree) if isinstance(n, (ast.FunctionDef, ast.AsyncFunctionDef)) and n.name == name and lineno in ({n.lineno} | {d.lineno for d in n.decorator_list})]


def variants_for(path, style, per_module):
    src = open(path, encoding="utf-8").read()
    top = symtable.symtable(src, path, "exec")
    out = []
    todo = []
    for qual, tab, infunc in scopes(top):
        names = [s.get_name() for s in tab.get_symbols() if s.is_local() and not s.is_parameter() and s.is_assigned() and not s.is_imported() and not s.get_name().startswith("__")]
        # do not rename nested function / class names (kept as anchors by name)
        nested = {c.get_name() for c in tab.get_children()}
        names = sorted(n for n in names if n not in nested and n != "_")
        if PARAMS and infunc and tab.get_name() != "lambda" and tab.get_parameters() and not any(p.startswith("*") for p in tab.get_parameters()):
            names = sorted(set(names) | {p for p in tab.get_parameters() if p not in ("self", "cls")})
        if names:
            todo.append((qual, names, tab.get_lineno()))
    if per_module:
        tree = ast.parse(src)
        k = 0
        for qual, names, ln in todo:
            for fn in find_func(tree, qual, ln):
                m = {}
                for n in names:
                    k += 1
                    m[n] = f"{n}_r" if style == "suffix" else f"v{k}"
                # only rename in the function body, param defaults untouched
                r = Renamer(m)
                fn.body = [r.visit(s) for s in fn.body]
        out.append((os.path.basename(path) + ":*", ast.unparse(tree)))
    else:
        for qual, names, ln in todo:
            tree = ast.parse(src)
            fns = find_func(tree, qual, ln)
            if not fns:
                continue
            for fn in fns:
                star = {a.arg for a in (fn.args.vararg, fn.args.kwarg) if a is not None}
                m = {n: (f"{n}_r" if style == "suffix" else f"v{i}") for i, n in enumerate(names) if n not in star}
                r = Renamer(m)
                fn.body = [r.visit(s) for s in fn.body]
                if PARAMS:
                    hit = False
                    for a in fn.args.posonlyargs + fn.args.args + fn.args.kwonlyargs:
                        if a.arg in m:
                            a.arg = m[a.arg]
                            hit = True
                    if hit:
                        for c in ast.walk(tree):
                            if isinstance(c, ast.Call) and (isinstance(c.func, ast.Name) and c.func.id == fn.name or (c.args and isinstance(c.args[0], ast.Name) and c.args[0].id == fn.name)):
                                for kw in c.keywords:
                                    if kw.arg in m:
                                        kw.arg = m[kw.arg]
            out.append((os.path.basename(path) + ":" + qual + "@%d" % ln, ast.unparse(tree)))
    return out


def run(rel, label, text):
    tmp = tempfile.mkdtemp(prefix="renfuzz_")
    try:
        shutil.copytree("/repo/droplets", os.path.join(tmp, "droplets"), ignore=shutil.ignore_patterns("__pycache__", "resources"))
        open(os.path.join(tmp, "droplets", rel), "w", encoding="utf-8").write(text)
        try:
            compile(text, rel, "exec")
        except SyntaxError as e:
            return label, {"compile": (3, [str(e)])}
        res = {}
        for p in PROPS:
            env = dict(os.environ, DROPSTAT_NO_EVIDENCE="1")
            r = subprocess.run(["/venv/bin/python", "-m", "dropstat", "check", p, "--root", tmp], cwd=VERIF, capture_output=True, text=True, env=env)
            if r.returncode != 0:
                lines = [l.strip()[:260] for l in r.stdout.splitlines() if "VIOLATED" in l or "ANALYSIS-ERROR" in l]
                res[p] = (r.returncode, lines[:3])
        return label, res
    finally:
        shutil.rmtree(tmp, ignore_errors=True)


def main():
    args = sys.argv[1:]
    style, per_module, jobs = "suffix", False, 16
    files = []
    while args:
        a = args.pop(0)
        if a == "--style":
            style = args.pop(0)
        elif a == "--params":
            global PARAMS
            PARAMS = True
        elif a == "--per-module":
            per_module = True
        elif a == "-j":
            jobs = int(args.pop(0))
        else:
            files.append(a)
    if not files:
        files = [os.path.relpath(p, "/repo/droplets") for p in glob.glob("/repo/droplets/**/*.py", recursive=True) if "version" not in p and "resources" not in p]
    work = []
    for rel in sorted(files):
        for label, text in variants_for(os.path.join("/repo/droplets", rel), style, per_module):
            work.append((rel, label, text))
    print(f"{len(work)} variants")
    bad = 0
    with ThreadPoolExecutor(jobs) as ex:
        for label, res in ex.map(lambda w: run(*w), work):
            if res:
                bad += 1
                print("ALARM", label)
                for p, (rc, lines) in res.items():
                    print("   ", p, rc, *lines[:2], sep="  ")
    print(f"{bad} of {len(work)} alarmed")
    return 1 if bad else 0


if __name__ == "__main__":
    sys.exit(main())
