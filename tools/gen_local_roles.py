#!/venv/bin/python
"""Regenerate dropstat/local_roles.json from /repo's current tree (the reference tree): per module and function, the
name-independent description of every local variable -> its name.  Run after every change of /repo that is meant to stay."""
import ast, json, os, sys
sys.path.insert(0, os.path.dirname(os.path.dirname(os.path.abspath(__file__))))
from dropstat.localroles import describe_module, TABLE_PATH
from dropstat.prenorm import prenormalize

out = {}
for dirpath, dirnames, filenames in os.walk("/repo/droplets"):
    dirnames[:] = [d for d in dirnames if d not in ("__pycache__", "resources")]
    for fn in sorted(filenames):
        if fn.endswith(".py"):
            full = os.path.join(dirpath, fn)
            rel = os.path.relpath(full, "/repo")
            d = describe_module(prenormalize(ast.parse(open(full, encoding="utf-8").read())))
            if d:
                out[rel] = d
json.dump(out, open(TABLE_PATH, "w"), indent=0, sort_keys=True)
print(sum(len(v) for v in out.values()), "functions,", sum(len(f) for v in out.values() for f in v.values()), "locals")
