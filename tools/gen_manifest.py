#!/venv/bin/python
"""Generate /verif/MANIFEST.json from the table below (claimed properties whose
check module exists) and validate it against /root/.vp/MANIFEST.schema.json."""
import json, os, sys

VERIF = os.path.dirname(os.path.dirname(os.path.abspath(__file__)))
PY = "/venv/bin/python"

CHECKS = {
    "C01": dict(
        technique="static analysis: coordinate-frame typestate (FRAME), unit inference (DIM), must-pass-through dataflow (FLOW), periodic-merge rule on resolved normal forms (MERGE), boundary enumeration over each transverse axis' own length and cell-frame period (MERGE:boundary, FRAME:period), half-open window and padding/shift agreement (WINDOW, PADSHIFT), renderer rules (DIST, SHARP, METRIC, SUMCLIP), periodic metric of the duplicate filter (METRIC), exact formula algebra (FORMULA); transverse periodic-image alignment before the merge mean (MERGE:image), face connectivity of the labelling (CONNECT), one-axis cell-volume rule, all-paths rule on the difference vector of polar_coordinates",
        text="Decides structural necessary conditions of the localisation property on every path of the four position pipelines: array-index -> cell -> grid frame discipline (the +0.5 offset), cell-volume factor of every located volume, wrap into the box (normalize_point) before droplet construction, volume-weighted merge across periodic boundaries in cell units, half-open periodic window on cylinders. It does not decide the count of droplets or the half-cell theorem itself.",
        note="Trusted: the contract table in DESIGN.md §2.4 (scipy.ndimage.center_of_mass returns array-index positions; GridBase.transform/normalize_point frames; grid.discretization units). Decides the named clauses, not the numerical behaviour.",
        ref="DESIGN.md §5 C01"),
    "C03": dict(
        technique="static analysis: renderer template in exact normal form (DIMGUARD, DIST, SHARP, SMOOTH, WIDTH, CAST), sibling agreement (SIBLING), periodic metric / angle convention / zero-distance division in polar_coordinates (METRIC, ANGLES, DIV0), angle-arity agreement (ARITY), own-amplitude guard rule (GUARD), first-order basis of the interface distance (COEFF), affine level map (AFFINE), sum-then-clip dataflow (SUMCLIP); shortcut guards keyed on all amplitudes (GUARD:shortcut), all-paths rule of the summed field (SUMCLIP), path-sensitive angle tuples",
        text="Decides that the three _get_phase_field implementations use one profile template (strict <, tanh profile monotone in distance with range (0,1) and midpoint at the interface), the periodic-aware difference vector, that angles returned per dimension are accepted by every perturbed class, that the 3-D angle computation guards the zero distance, that get_phase_field is vmin+(vmax-vmin)*u and that the emulsion field is the in-place clipped sum over all members.",
        note="Trusted: GridBase.difference_vector is the periodic metric; numpy tanh/clip semantics. Translation equivariance and float-sum order independence are not decided.",
        ref="DESIGN.md §5 C03"),
    "C04": dict(
        technique="static analysis: bounds-table/dtype layout agreement (LAYOUT), constraint-mask dominance and def-use of the packed parameter vector (FLOW/PACK), affine typing of intensity slots (AFFINE), plain squared-residual objective (OBJECTIVE), effect summary on the image (EFFECT), wrap must-pass-through; unconditional read-back of the optimiser result (PACK:read-back), Kleene evaluation of branch modes",
        text="Decides necessary conditions of 'never worsens / respects bounds, symmetry and the box': data_bounds indices equal the flattened dtype offsets for all five classes, the constraint mask dominates every use of the free mask and every parameter store is indexed by it, x0/lower/upper/closure agree on the packed slots and their affine types, the fit starts from the candidate, levels come from the fitted region, the final position passes normalize_point after the fit, the image is never written, the class is preserved.",
        note="Trusted: scipy.optimize.least_squares returns a point inside the bounds with cost <= cost at a feasible x0. The numeric cost comparison is not decided.",
        ref="DESIGN.md §5 C04"),
    "C06": dict(
        technique="static analysis: CFG path counting of store actions per loop iteration (PATHCOUNT), ownership/copy-on-insert (OWN), effect summaries (EFFECT), ordering/dominance of alive-set bookkeeping (FLOW), None-default identity tests (NONE-TEST); exactly-one-append path count in DropletTrack.append (PAIR), metric/strictness of the overlap predicate (METRIC, STRICT)",
        text="Decides that on every path through both matchers each droplet of the frame is stored exactly once, stamped with the frame's time taken from time_course.items(), stored as a copy; that row/column invalidation accompanies each greedy match; that alive tracks are computed from t_last which is updated every frame; that the input time course is never written.",
        note="Trusted: list/zip semantics. 'At most one droplet per frame per track' under the non-overlap precondition is a run-time fact, not decided beyond the invalidation rule.",
        ref="DESIGN.md §5 C06"),
    "C07": dict(
        technique="static analysis: periodic-metric propagation to every distance/overlap primitive (METRIC), must-precede dataflow of the cut-off (FLOW), greedy-loop shape (GUARDSHAPE/PATHCOUNT), reference-droplet rule (.last)",
        text="Decides that both matchers measure against the last droplet of each alive track with the grid's metric when a grid is given (grid forwarded to overlaps, grid.distance(coords='cartesian') as cdist metric), that the cut-off masks distances before matching with strict >, that the greedy loop takes the arg-min and stops at infinity, that overlap continuation requires exactly one overlapping track, and that overlaps is strict < on the sum of radii.",
        note="Trusted: GridBase.distance is the periodic metric; scipy cdist applies the metric pairwise. Optimality of the matching for actual motions is not decided.",
        ref="DESIGN.md §5 C07"),
    "C08": dict(
        technique="static analysis: writer/reader table agreement (IOAGREE) and dtype/ctor layout agreement (LAYOUT) over the five writer and five reader functions; NaN-abstract walk through the width setter (IOAGREE:nan), identity tests of stored times (NONETEST), vacuous default filter of Emulsion.copy (COPYALL); file modes and fresh member writers (IOAGREE:mode/fresh), sort by sequence key only, no forced dtype when forming tables (no-cast), no memoised derived data on mutable classes (no-cache), writers propagate failures, exactly-one-append path count (PAIR), constructor-chain forwarding (LAYOUT:ctor-chain)",
        text="Decides that every attribute/dataset key read is written on every writer path, the empty sentinel agrees, keys are zero-padded fixed-width and read through sorted(), the class name written is looked up in a registry keyed by the same name, the time column written first is the one dropped on reading with a 64-bit float type, dtype fields = constructor parameters = stored fields for all droplet classes, mixed-class emulsions raise before anything is written, and equality used for the round trip is exact.",
        note="Trusted: h5py/NumPy store structured arrays bit-exactly; key width 6 gives order agreement up to 10^6 members.",
        ref="DESIGN.md §5 C08"),
    "C09": dict(
        technique="static analysis: may-be-empty typestate to empty-intolerant sinks (EMPTY), arity agreement (ARITY), zero-distance division (DIV0), documented-error guards (DIMGUARD), dispatch exhaustiveness over branch tables (EXHAUST), feasibility of the packed start vector in exact linear forms (FEASIBLE), containment of the internal spanning-droplet signal (SIGNAL), unset-width default selection of the renderers (WIDTH), coordinate system told to grid.distance (METRIC), NaN-tolerant selection in threshold_otsu (TOTAL); layout-less (empty) emulsion typestate at consistency checks (EMPTY:layout-less), strictly ordered fit bounds (FEASIBLE:strict-bounds), bounds values (LAYOUT), boundary enumeration (MERGE:boundary), modes validity on the space dimension (EXHAUST:modes-dim), threshold-option typestate (TOTAL:threshold)",
        text="Decides crash-freedom necessary conditions for the input classes the property names: empty frames/selections are guarded before cdist/center_of_mass/transform, every ndimage.label caller returns an empty emulsion on zero labels, rendering passes each perturbed class as many angles as it accepts, the 3-D angle computation cannot divide 0/0, the grid-family and threshold dispatches are exhaustive with the documented errors, and the fit's start vector is feasible by construction.",
        note="Absence of all exceptions and finiteness of fitted values are not decided.",
        ref="DESIGN.md §5 C09"),
    "C10": dict(
        technique="static analysis: pop-only effect (EFFECT), lock-step list/matrix mutation (PAIR), path-sensitive tie-break and closeness guards (GUARDSHAPE), metric selection (METRIC), symmetric construction and exact surface-distance normal form (SYMM, SURFACE), strict overlap predicate (STRICT), nearest-neighbour and random-placement shape rules (NEIGHBOR, RANDOM)",
        text="Decides that remove_overlapping mutates the emulsion only by pop (survivors are original objects in order), pops index k together with deleting row and column k of the distance matrix in every branch, removes the smaller-or-equal droplet of the closest pair under a strict < min_distance test with the diagonal neutralised, leaves only via the not-closer exit; that the distance matrix is built symmetric with zero diagonal from the (periodic) metric minus both radii; that overlaps is the strict negative-surface-distance predicate; nearest-neighbour distances take the second KD-tree hit and subtract both radii.",
        note="Trusted: numpy.delete/argmin/unravel_index semantics, KD-tree query contract, Generator.uniform range.",
        ref="DESIGN.md §5 C10"),
    "C11": dict(
        technique="static analysis: term normal forms over uninterpreted converters (TERM), operand-swap symmetry, read-after-write alias rule (ALIAS), sibling/effect rules on merge, exact formula algebra (FORMULA); default of the in-place switch (EFFECT:default)",
        text="Decides, for all operands at once, that the merge kernels store RfV(VfR(r1)+VfR(r2)), the volume-weighted mean position and the mean width (exact AC-normal forms, invariant under operand swap), on every path; that no operand field is read after the same out field was written (in-place = out-of-place); that both branches of merge run the same kernel on the same operands, the copy branch into a fresh record; and that the converters are exact mutual inverses per dimension.",
        note="Trusted: IEEE + and * commute; numba register_jitable preserves semantics. Floating-point associativity across many merges is not decided.",
        ref="DESIGN.md §5 C11"),
    "C12": dict(
        technique="static analysis: exact monomial algebra over extracted return expressions (FORMULA) with complete (variant x dimension) enumeration, generic per-dimension evaluation with sibling inlining, no-division-by-argument rule (ZERO), argument-shaped constants (FORMULA:constant-shape), identities (FORMULA-ID), wiring rules on droplet properties (WIRING); interprocedural per-dimension evaluation of helper functions, argument-unmodified rule (ARG), statelessness of converters and factories (STATELESS), bbox overrides (WIRING)",
        text="Every return expression of every variant of each sphere conversion (plain, dimension-specialised factory, dimension-generic factory, numba overload lambdas, py-pde's function) is evaluated per dimension into an exact monomial over the reals; variants must be equal, compositions must be the identity, dV/dr must equal the surface, and the droplet properties must call the matching converter with (radius, dim). Exhaustive over the finite table; exact for every positive real.",
        note="Exact arithmetic over the reals; last-bit floating-point agreement and NumPy scalar/array dispatch are not decided.",
        ref="DESIGN.md §5 C12"),
    "C13": dict(
        technique="static analysis: dual-number first-order expansion over exact normal forms (COEFF), accumulation and index-origin rules over amplitude loops (ACCUM, ORIGIN, GUARD, PAIRS), unit inference (DIM), may-be-scalar shape analysis (SHAPE), interface completeness (COMPLETE), unit-vector convention (UNITVEC), symbolic derivative pairing (DERIV), closed-form algebra (FORMULA), quadrature limits (INTEGRAL), overridable-vertex rule (TRIANG); index-loop normal form over the amplitude vector, closed-form volume degree rule (INTEGRAL), shortcut guards (GUARD:shortcut)",
        text="Decides that every mode contributes to distance, curvature, surface and volume series (cumulative updates only), that curvature/volume/area expressions are dimensionally homogeneous for any radius, that the derivative series in the 2D surface area is term-by-term the φ-derivative of the distance series, that mode indices start at 1 consistently, that every perturbed class overrides the whole shape interface, that 3D and axisymmetric curvature coefficients agree, that the 3D volume integrates over the full sphere, and that pair iteration yields every amplitude.",
        note="That the closed forms equal the integrals numerically is not decided.",
        ref="DESIGN.md §5 C13"),
    "C14": dict(
        technique="static analysis: option forwarding against callee signatures (FORWARD), pipeline equality on the call graph (PIPE), try-guard shape (TRYGUARD), paired appends (PAIR), None-default identity tests, writer/reader agreement (IOAGREE); every-frame must-pass-through of the analysis call (PIPE:every-frame), same-value rule between analysis and record (SAMEVALUE), time attribute on every writer path, file modes",
        text="Decides that every analysis option the droplet tracker stores is forwarded unconditionally to locate_droplets under the matching keyword, that tracker and offline paths are the same locate_droplets -> EmulsionTimeCourse.append pipeline with the solver time bound to the time parameter (tested with `is None`), that the length-scale call is guarded by an except Exception (or wider) handler assigning NaN without re-raising, that times and values are appended pairwise on every path, and that finalize writes what the readers read.",
        note="Solver-driven runs are not analysed; pde.visualization.plotting.extract_field is trusted to be deterministic.",
        ref="DESIGN.md §5 C14"),
    "C15": dict(
        technique="static analysis: ordered-map API rule and serial/parallel branch agreement (PARMAP), one-shot iterable consumption (ITER-ONCE), argument forwarding (FORWARD), purity over the reachable call graph (PURE), taint closure from the per-item parameter to writes into objects shared between items (SHARED), pool-size rule (PARMAP:workers); module-level state (random generators, run-time filled containers) in the reachable call graph, loop-carried state in the serial branch",
        text="Order for every completion schedule follows from Executor.map's contract; the check decides that both parallel sites use it and consume it in order, that serial and parallel branches apply the same callee to the same fixed arguments, keywords, iterable and filter, that one-shot iterables are consumed once, and that no RNG/clock/environment/global state is reachable from the analysis entry points.",
        note="Trusted: concurrent.futures.Executor.map ordering contract; pickling round trip is bit-exact.",
        ref="DESIGN.md §5 C15"),
    "C16": dict(
        technique="static analysis: unit inference with length/amplitude/cell-count dimensions and coordinate-vs-length typing (DIM, AFFINE), raw-data and orthonormal-transform rule (RAWDATA), per-axis index agreement (INDEXAGREE), pass-through of requested wave numbers (PASS), path-sensitive zero-mode rule (ADDZERO); smoother input rule (SMOOTHIN), statelessness (STATELESS), absolute-tolerance comparisons of dimensional quantities (DIM:isclose)",
        text="Decides homogeneity degree 0 of the structure factor in field amplitude and cell count (orthonormal FFT, squared modulus, division by the squared norm), wave numbers with unit 1/length built from matching shape/spacing indices over all axes, identical [1:] truncation of spectrum and wave numbers, requested wave numbers returned unchanged, (0, 1) prepended consistently, smoothing width and k_min in wave-number units.",
        note="Trusted: numpy.fft.fftfreq(n, d) has unit 1/d; fftn(norm='ortho') scales amplitude by count^(1/2). FFT theorems (Parseval, symmetries) are not decided.",
        ref="DESIGN.md §5 C16"),
    "C17": dict(
        technique="static analysis: unit inference (DIM) with coordinate-vs-length typing (AFFINE) along every path to the returned length scale on all three method branches, per-axis wave-vector agreement (INDEXAGREE), dispatch exhaustiveness (EXHAUST), box-volume and peak-search shape rules (VOLUME, PEAK), amplitude unit of the threshold reaching the mask comparison, cell-vs-length frame discipline of the Cartesian locator (FRAME, FLOW, MERGE) and exact normal forms of the relative threshold rules (THRESH) for the droplet count; unmodified spectrum on the way to the peak search (PEAK:spectrum), raw-data rules of the spectrum (RAWDATA), face connectivity (CONNECT), statelessness of the reachable call graph (STATELESS), absolute-tolerance comparisons of dimensional quantities",
        text="A dimensionally homogeneous computation is covariant under a change of units: the check decides that every operation on the path to the result is homogeneous and that the result has degree (length^1, amplitude^0, count^0) under the API contracts, for all three methods.",
        note="Trusted: SmoothData1D sigma is in units of x; minimize_scalar returns x in bracket units. Half-bin accuracy of the peak method is not decided.",
        ref="DESIGN.md §5 C17"),
    "C18": dict(
        technique="static analysis: backward-slice rule (SLICE), exact normal forms of the threshold rules (THRESH), dispatch exhaustiveness (EXHAUST), strict mask comparison (GUARDSHAPE), filter placement on the CFG (FILTER), removal-loop shape (REMOVE), orientation/cut abstract interpretation of the Otsu method (ORIENT); bin count is the caller's request (THRESH:histogram), binary image unmodified after the comparison (GUARDSHAPE:mask)",
        text="Decides that the unrefined result depends on field values only through the threshold and one strict > comparison, that each documented rule computes its documented reducer of phase_field.data (extrema midpoint, mean, Otsu bin centre with 256 bins and aligned class arrays), that the size filter removes iff radius <= minimal radius by a removal loop that cannot skip elements, before and after refinement with the same argument.",
        note="Invariance of the arg-max index under affine maps in floating point is not decided.",
        ref="DESIGN.md §5 C18"),
    "C19": dict(
        technique="static analysis: exhaustive abstract evaluation of the class-selection fragment over the finite configuration space (CLASSSEL), constructor/field layout compatibility (LAYOUT); all-paths rules of locate_droplets/refine_droplet, data-dependent (TOP) values in the abstract evaluation, configuration-rebinding prefix, constructor-chain forwarding",
        text="The class-selection fragment of locate_droplets plus the promotion in refine_droplet is abstractly evaluated over all (grid family x dimension x modes x width given/zero/none x refine) configurations and compared with the table in the property (108 configurations, modes 0/2/3); periodicity, refinement flag and threshold rule are shown irrelevant for the selection (no condition reads them). Complete over that finite space, including branches no test executes.",
        note="Supported subset of Python in the fragment: if/elif/else, comparisons with constants, isinstance on the grid, class-name assignment, dict stores, integer arithmetic and augmented assignment; anything else is reported as analysis error, not a verdict.",
        ref="DESIGN.md §5 C19"),
    "C20": dict(
        technique="static analysis: who-may-store ownership rule and path-sensitive copy-on-insert (OWN), fresh derivations through constructors (FRESH), lock-step parallel lists incl. default-time cases (PAIR), rejection guards dominating the store (REJECT), removal-loop shape (REMOVE), identity tests of optional values (NONETEST), linked-data binding (LINK), order-free summaries (ORDERFREE), in-place merge alias rule (ALIAS), vacuous default filter of Emulsion.copy (COPYALL); source of the size statistics and total volume (STAT), time axis of trajectory filters (STAT:time-axis), exactly-one-append path count (PAIR)",
        text="Decides that the only primitive stores into the backing lists are the three owner methods, that on the default path the stored value is a fresh copy for every argument type, that copies/slices/sums are built through constructors with re-listed times, that times/members are mutated in lock-step on every path of every method, that constructors own their lists, and that the consistency and dimension guards raise.",
        note="The statistics clause (summary queries equal their definitions) is not decided.",
        ref="DESIGN.md §5 C20"),
}

NOT_APPLICABLE = [
    {"property_id": "C02", "reason": "One-to-one correspondence between returned droplets and connected components of an arbitrary binary image under the grid topology lives in run-time label arrays and loop-carried merge state; no dataflow/typestate/effect rule bounds it (DESIGN.md §7). Its structural sub-clauses that are necessary conditions of claimed properties are decided under C01/C09."},
    {"property_id": "C05", "reason": "Relative error below 1e-4 after refinement is a statement about the numerical convergence of a non-linear least-squares fit; nothing in the shape of the code bounds it (DESIGN.md §7). The wiring it depends on is decided under C04/C09/C18."},
]


# rule families added in rounds 5/6 and by the fourth behaviour-preserving batch (appended to the technique strings)
EXTRA = {
    "C01": "periodic window bounds taken from the axis (WINDOW), analysis on the normalised program (helper inlining that keeps names, **dict/partial/generator expansion)",
    "C03": "closure of the angular range (COVER), angle dispatch per dimension (ANGLES:dispatch), own-amplitude guard of mixed terms",
    "C04": "residual slots identified by index (params[-k]), slice objects resolved by value",
    "C06": "keeps-all flow rule of the pair removal (FLOW:keeps-all), generator-extracted greedy loop analysed in place",
    "C07": "partial-bound matcher resolved to the helper it binds",
    "C08": "top-level key agreement and reader totality (IOAGREE), one class and layout per track (IOAGREE:one-class), restore of unpickled records (PICKLE:restore), writer specialised per emptiness of the collection",
    "C09": "slice stop used as an index (BOUNDS), removal that keeps indices valid (REMOVE), optional dimension of empty collections (EMPTY)",
    "C10": "stale parallel array after a deletion (PAIR:stale), tie-break attribute, value-based RANDOM, self-alias iteration (ALIAS:iterates-argument)",
    "C11": "function specialisation per value of the in-place flag (both settings analysed as separate functions)",
    "C13": "index-loop normal form (N6), closure of the quadrature range (COVER), component-wise unit vector (UNITVEC), closed-form volume (INTEGRAL)",
    "C14": "NaN walk of the width setter, PARMAP and every-frame must-pass-through composed in",
    "C15": "writable restored record (PICKLE), module-level state in PURE, arms that return their result directly",
    "C16": "axis-permutation invariance (PERMINV), smoother input (SMOOTHIN), fold threshold of hand-written frequencies, path-sensitive PASS over every return path, STATELESS",
    "C17": "STATELESS with alias tracking, RAWDATA, CONNECT and dedup METRIC composed in",
    "C19": "grid-family contract facts, module-level literal tables, STATELESS with alias tracking, unmodified constructor arguments",
    "C20": "self-alias iteration (ALIAS:iterates-argument), size statistics over the members' own properties with multi-definition selections (STAT)",
}

# rule families added in round 6 / batch 5
# rules added in round 8 (supporting cast outside the anchored functions) and the analysis-only pre-passes
EXTRA3 = {
    "C01": "grid-family dispatch reaches the anchored locator for every grid of the family (EXHAUST); no axis-independent guard inside the loop over the periodic axes (MERGE:axis-guards); the duplicate filter gets no minimal distance (METRIC:min-distance)",
    "C03": "scalar-argument decorator passes angle arrays through unchanged (WRAP), no matrix product over grid-shaped angle arrays (SHAPE:elementwise)",
    "C04": "sharp/boolean image of every renderer uses the class' own interface (SHARP, WIDTH, CAST composed), writes through aliases of the image incl. out= (EFFECT); level-fitting branch unreachable for adjust_values=False (LEVELS:fixed-levels); zero-distance division of polar_coordinates (DIV0) and both arms of refine_droplets (PARMAP) composed in",
    "C06": "track accessors start/end/first/last are the first/last appended element (ACCESSOR); greedy arg-min loop of the distance matcher (GREEDY), matching skipped only for empty point sets (EMPTY:only-emptiness), unfiltered point lists (INDEX:unfiltered)",
    "C07": "track accessors start/end/first/last are the first/last appended element (ACCESSOR); EMPTY:only-emptiness and INDEX:unfiltered of the distance matcher",
    "C08": "constructor keeps its own list of times (FRESH), record fields declared as doubles (LAYOUT:field-types), width setter tests by identity (NONETEST); emptiness test of the dataset writers equivalent to emptiness, class comparison over every member; every path through a writer opens the target (IOAGREE:total)",
    "C09": "no arithmetic on a worker count that is None for 'auto' (PARMAP:none-arithmetic), WRAP, SHAPE:elementwise; automatic levels defined for an empty fit region and converted to float (LEVELS composed)",
    "C10": "record fields declared as doubles (LAYOUT:field-types), no double application of a sort permutation (INVPERM)",
    "C11": "record fields declared as doubles (LAYOUT:field-types), width setter stores 0 as 0 (NONETEST on value-or-default)",
    "C12": "record fields declared as doubles (LAYOUT:field-types); every path through the volume setter stores the radius (WIRING:total); register_jitable inner implementations of the dimension-generic factories (FORMULA:decorator)",
    "C13": "scalar-argument decorator (WRAP), no matrix product over angle arrays (SHAPE:elementwise); no relative radius update in the 2-d volume setter (FORMULA)",
    "C14": "constructor order and own times list (FRESH), result dtype independent of the image dtype (DTYPE); result file opened for writing from scratch (IOAGREE:mode over open())",
    "C15": "writes through aliases of the shared image incl. out= keywords (EFFECT); serial branch chosen by an equality test on the process count (PARMAP:serial-test), per-item function applied once per item (PARMAP:once)",
    "C16": "no memoised helper handing out shared arrays (STATELESS:memoised), casts derived from the image dtype (DTYPE); caller's smoothing width converted to float (PASS:sigma-float)",
    "C17": "STATELESS:memoised, DTYPE, removal-loop shape of the duplicate filter composed in (GUARDSHAPE, EFFECT, PAIR); MERGE:axis-guards, the caller's keyword arguments reach locate_droplets (FORWARD); no constant answer for some droplet counts (VOLUME:every-count), `smoothing is None` selects the automatic width (NONETEST:none-default), METRIC:min-distance",
    "C18": "no module-level state on the way from the image to the droplets (STATELESS over locate_droplets); histogram totality of the otsu rule (TOTAL composed)",
    "C19": "both arms of refine_droplets hand out refine_droplet's own results (PARMAP composed); the returned emulsion takes its layout from its own droplets (CLASSSEL:result-layout); class registry, f-strings and tuple stores interpreted, results of public package functions are not the requested value by construction",
    "C20": "an explicit dtype is applied before the members are added (REJECT:ctor-dtype); strict filter of Emulsion.copy (COPYALL:strict), surface distance of the overlap filter (SURFACE, SYMM composed), linked rows are records (LINK:record); strict closeness test of the removal loop (GUARDSHAPE:closeness composed)",
}
EXTRA4 = {
    "C01": "the periodic difference vector of polar_coordinates is used as the grid computed it (METRIC:unmodified: no wrap by a cell count); the cluster at the origin becomes the droplet under no further condition (EXHAUST:origin-cluster)",
    "C03": "Emulsion.append stores every item exactly once (PAIR:stores-once composed: the emulsion image renders a slice that is rebuilt through append); values modified in place after their definition are not identified with it (path evaluation marks in-place stores)",
    "C04": "sharp-branch truth table over the spellings of a boolean request (builtin bool, np.bool_, dtype object); working arrays of the fit do not take the image's dtype (DTYPE composed)",
    "C06": "no exit of a matcher before the step that stores the unlinked droplets (PATHCOUNT:runs-to-end)",
    "C08": "Emulsion.copy's default filter as a truth table over concrete radii incl. NaN (COPYALL:default-filter)",
    "C09": "definite assignment of locals with path confirmation (UNBOUND), identity-less reductions over the possibly empty amplitude vector (EMPTY:amplitude-reduction), `is None` tests on the optional sequence arguments of the collection constructors (NONETEST)",
    "C10": "overlaps is not replaced in a subclass (OVERRIDE), every pair of the distance matrix is written unconditionally (SYMM:every-pair)",
    "C11": "boolean options are used by truth value, not identity (FLAGTEST)",
    "C12": "a re-declared property keeps the setter of its base class (WIRING:setters-kept), the volume setter accepts 0 (WIRING:zero)",
    "C13": "layout of the interface positions (components-first arrays are transposed, not reshaped: UNITVEC), volume and surface area of every perturbed class read the shape or refuse (INTEGRAL:reads-shape), no module-level state in the shape quantities (STATELESS)",
    "C14": "a stored option is the caller's value: the constructor parameter is not rebound before the store (FORWARD), exact NaN-aware droplet equality (IOAGREE:equality composed)",
    "C15": "image, candidates and options reach the per-candidate refinement as given (PARMAP:inputs-as-given)",
    "C16": "per-axis components found by their use in the outer sum; hand-written mode numbers judged by their range (INDEXAGREE)",
    "C17": "periodic metric of get_pairwise_distances composed in (METRIC), hand-written mode numbers (INDEXAGREE)",
    "C18": "no result before the binary image is formed (GUARDSHAPE:no-shortcut), between-class variance in exact normal form (THRESH:variance), candidates reach the refinement unfiltered (PARMAP:inputs-as-given)",
    "C19": "a branch of the selection decided by a measured quantity is a wrong-table result (one class and layout per result), element-wise numpy functions of measured quantities are measured quantities",
    "C20": "both settings of merge(inplace) go through the class' own kernel on every path (SIBLING/EFFECT of merge composed), Emulsion.copy's filters as truth tables (COPYALL)",
}
EXTRA5 = {
    "C04": "the candidates of refine_droplets are consumed once (ITER-ONCE composed), the image values of the fit region are not replaced (OBJECTIVE:image-values)",
    "C06": "the loop over the frames works on the items it is handed (EFFECT:frame-as-given)",
    "C07": "named options of from_storage reach from_emulsion_time_course (FORWARD:forwards)",
    "C08": "writers consume their one-shot frame iterators once (ITER-ONCE over local iterators)",
    "C09": "the time course keeps its own list of times (FRESH composed), histogram bins are not dropped by a mask (TOTAL:bins-kept)",
    "C10": "no hand-written memo on the mutable emulsion (STATELESS:no-cache incl. results stored on self), exact Euclidean k-d tree query (NEIGHBOR:metric)",
    "C11": "unpickled droplets stay writeable (PICKLE composed), a clamped operand in a merge store is not the conserved quantity (TERM)",
    "C13": "the scalar-argument wrapper hands accepted keywords to the method on every path (WRAP), mode iterators are consumed once (ITER-ONCE), the angles are used as given (ORIGIN:angles-as-given)",
    "C14": "the located emulsion is recorded as returned (PIPE:result-as-returned), finalize writes with the file name only (FORWARD:to_file)",
    "C15": "module-level containers reached through local aliases and modified by augmented assignment (STATELESS composed)",
    "C16": "the Fourier transform is not modified in place before the modulus is taken (RAWDATA:modulus)",
    "C17": "threshold_otsu does not write through its argument or a view of it (EFFECT:data-readonly), mask conjunctions (GUARDSHAPE:mask composed)",
    "C18": "the binary image is the comparison alone (GUARDSHAPE:mask on conjunctions, also when built up over several statements), threshold_otsu does not write through its argument (EFFECT:data-readonly)",
    "C19": "boolean options used by truth value (FLAGTEST), dictionary literals interpreted, every return of refine_droplet hands out the promoted object (CLASSSEL:returns-promoted)",
    "C20": "the periodic metric reaches the distance matrix of remove_overlapping (METRIC composed), extend / the constructor consume their iterable once (ITER-ONCE composed)",
}
ALL_SUFFIX = "; all rules run on the pre-normalised program (dropstat/prenorm.py: spelling-level normal forms; dropstat/localroles.py: canonical local names)"
EXTRA2 = {
    'C01': "surface-distance and symmetry of the duplicate filter's distance matrix (SURFACE, SYMM)", 'C04': 'levels defined for an empty fit region (LEVELS:empty-region), feasibility for both signs of the intensity range (FEASIBLE, min/max resolved per case)',
    'C06': 'INDEX violation when the link indices do not come from the arg-min',
    'C08': 'pair iteration of items(), full-dtype layout comparison',
    'C09': 'histogram totality (TOTAL:histogram), INDEX of the distance matcher, on-axis constraint (DIMGUARD:on-axis)',
    'C10': 'surface-minimum rule of the neighbour distances (known finding), index swaps followed in the tie-break',
    'C12': 'closed-form rule (no rounding / table between argument and result), scalar-only function rule (ARG:array)',
    'C13': 'first-order volume (COEFF:first-order), ORIGIN sequence, DERIV over fissioned loops',
    'C14': 'instance containers (OWN), pair iteration, NaN-initialised TRYGUARD',
    'C15': 'failure-propagates, independent-items, EFFECT with aliases on the shared image/grid',
    'C16': 'working-array dtype (DTYPE), kernel-width obligation per conditional alternative',
    'C17': 'working-array dtype (DTYPE)',
    'C18': 'range-point fallback of the otsu rule (THRESH:fallback), extrema combined as floats (THRESH:dtype), late-binding closures (LATEBIND)',
    'C19': 'boundary-value mode counts, isinstance on request values, hoisted / comprehension class selection',
    'C20': 'instance containers (OWN:own-container), weighted-mean guard (STAT:weighted-mean)',
}


def main():
    checks = []
    for pid, d in CHECKS.items():
        if not os.path.exists(os.path.join(VERIF, "dropstat", "props", pid.lower() + ".py")):
            continue
        checks.append({
            "property_id": pid,
            "quick_cmd": f"{PY} -m dropstat check {pid} --tier quick",
            "thorough_cmd": f"{PY} -m dropstat check {pid} --tier thorough",
            "evidence_file": f"/verif/evidence/{pid}.json",
            "replay_cmd_template": f"{PY} -m dropstat explain {{path}}",
            "engine": "dropstat",
            "level_claimed": {"category": "other", "text": d["text"], "design_ref": d["ref"]},
            "level_note": d["note"],
            "technique": d["technique"] + ("; " + EXTRA[pid] if pid in EXTRA else "") + ("; " + EXTRA2[pid] if pid in EXTRA2 else "") + ("; " + EXTRA3[pid] if pid in EXTRA3 else "") + ("; " + EXTRA4[pid] if pid in EXTRA4 else "") + ("; " + EXTRA5[pid] if pid in EXTRA5 else "") + ALL_SUFFIX,
        })
    na = list(NOT_APPLICABLE)
    claimed = {c["property_id"] for c in checks}
    for pid in CHECKS:
        if pid not in claimed:
            na.append({"property_id": pid, "reason": "check not built yet in this revision (planned: see DESIGN.md §5)"})
    man = {
        "version": 1,
        "setup_cmd": f"{PY} -m dropstat selftest --quiet",
        "hooks": {
            "guard": "PY_DROPLETS_VERIF",
            "enable": "none needed: the checks parse /repo's working tree with ast and never import or run it; no instrumentation exists",
            "baseline_off_cmd": "cd /repo && /venv/bin/python -m pytest -ra -q -p no:cacheprovider --timeout=900 --continue-on-collection-errors",
            "source_commits": [],
            "add_only": True,
        },
        "engines": [{
            "name": "dropstat",
            "path": "/verif/dropstat",
            "serves_properties": sorted(claimed),
            "kind_free_text": "repository-specific static analyser (stdlib ast): program model with MRO and import resolution, statement CFG with dominators and reaching definitions, call graph, exact algebraic normal forms, unit/frame abstract domains, rule families per DESIGN.md §4",
        }],
        "checks": checks,
        "not_applicable": na,
        "notes": "All checks are static: they parse /repo/droplets on every run and report a specific construct. Exit 2 + ANALYSIS-ERROR means the analysis could not be carried out (vanished anchor), never a verdict. Known findings: /verif/known_findings.json.",
    }
    path = os.path.join(VERIF, "MANIFEST.json")
    with open(path, "w") as fh:
        json.dump(man, fh, indent=1)
    try:
        sys.path.append("/opt/veriftools/pyvenv/lib/python3.11/site-packages")
        import jsonschema
        jsonschema.validate(man, json.load(open("/root/.vp/MANIFEST.schema.json")))
        print("MANIFEST valid;", len(checks), "checks;", len(na), "not applicable")
    except ImportError:
        print("jsonschema unavailable; wrote", path)


if __name__ == "__main__":
    main()
