#!/venv/bin/python
"""summarise a benigntest log: per variant the checks that alarm (rc) and the first rule of each"""
import re, sys, collections
txt = open(sys.argv[1]).read()
cur = None; res = collections.OrderedDict(); last = None
for line in txt.splitlines():
    m = re.match(r'^(/\S+):', line)
    if m: cur = m.group(1).split('/')[-1]; res[cur] = []; continue
    m = re.match(r'^\s+(C\d\d) rc=(\d)', line)
    if m and cur: last = [m.group(1), m.group(2), None]; res[cur].append(last); continue
    m = re.match(r'^\s+VIOLATED\s+(\S+)\s+(\S+)', line)
    if m and last and last[2] is None: last[2] = m.group(1) + "@" + m.group(2).split('.')[-1][:40]
    m = re.match(r'^\s+ANALYSIS-ERROR property=\S+ rule=(\S+) (.*)', line)
    if m and last and last[2] is None: last[2] = "AE:" + m.group(1) + " " + m.group(2)[:60]
n1 = sum(1 for v in res.values() if any(r == '1' for _, r, _ in v)); n2 = sum(1 for v in res.values() if v and all(r == '2' for _, r, _ in v))
print('with rc1:', n1, 'only rc2:', n2, 'silent:', sum(1 for v in res.values() if not v))
for k, v in res.items():
    if v: print(k, ' | '.join(f'{p}:{r} {w}' for p, r, w in v))
