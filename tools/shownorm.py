#!/venv/bin/python
"""usage: tools/shownorm.py <variant dir | -> <module file relative to droplets/> <function name>  — print the normalised, inlined form"""
import ast, os, subprocess, sys, tempfile, shutil
sys.path.insert(0, "/verif")
from dropstat.normalize import inline_module, normalize_tree

d, mod, fn = sys.argv[1:4]
tmp = tempfile.mkdtemp(prefix="shownorm_", dir="/tmp")
try:
    shutil.copytree("/repo/droplets", tmp + "/droplets")
    if d != "-":
        subprocess.run(["patch", "-p1", "-s", "-f", "-i", os.path.realpath(d) + "/patch.diff"], cwd=tmp, check=True)
    tree = ast.parse(open(f"{tmp}/droplets/{mod}").read())
    tree = inline_module(normalize_tree(tree))
    for n in ast.walk(tree):
        if isinstance(n, ast.FunctionDef) and n.name == fn:
            n.body = [s for s in n.body if not (isinstance(s, ast.Expr) and isinstance(s.value, ast.Constant))]
            print(ast.unparse(n))
            print("-" * 60)
finally:
    shutil.rmtree(tmp)
