#!/venv/bin/python
"""Run the checks against seeded breaking patches WITHOUT touching /repo:
each patch is applied to a scratch copy of /repo's working tree under a temp dir and
the checks are run with --root pointing there.

usage: tools/seedtest.py [--all-props] [dir ...]   (default: /verif/seeded/* and /tmp/seeded_out/*/*)
"""
import glob, json, os, shutil, subprocess, sys, tempfile
from concurrent.futures import ThreadPoolExecutor

VERIF = os.path.dirname(os.path.dirname(os.path.abspath(__file__)))
PROPS = ["C01","C03","C04","C06","C07","C08","C09","C10","C11","C12","C13","C14","C15","C16","C17","C18","C19","C20"]

def run_one(d, all_props):
    d = os.path.abspath(d)
    patch = os.path.join(d, "patch.diff")
    if not os.path.exists(patch):
        return d, None, "no patch.diff"
    meta = os.path.join(d, "meta.json")
    if os.path.exists(meta):
        prop = json.load(open(meta))["property"]
    else:
        prop = [p for p in d.split("/") if p.startswith("C") and len(p) >= 3][0][:3]
    tmp = tempfile.mkdtemp(prefix="seedtest_")
    try:
        shutil.copytree("/repo/droplets", os.path.join(tmp, "droplets"), ignore=shutil.ignore_patterns("__pycache__", "resources"))
        r = subprocess.run(["patch", "-p1", "-s", "-i", patch], cwd=tmp, capture_output=True, text=True)
        if r.returncode != 0:
            return d, prop, "PATCH-FAILED " + r.stdout[:200].replace("\n", " ")
        res = {}
        for p in (PROPS if all_props else [prop]):
            env = dict(os.environ, DROPSTAT_NO_EVIDENCE="1")
            r = subprocess.run(["/venv/bin/python", "-m", "dropstat", "check", p, "--root", tmp], cwd=VERIF, capture_output=True, text=True, env=env)
            lines = [l for l in r.stdout.splitlines() if "VIOLATED" in l or "ANALYSIS-ERROR" in l]
            res[p] = (r.returncode, lines)
        return d, prop, res
    finally:
        shutil.rmtree(tmp, ignore_errors=True)

def main():
    args = sys.argv[1:]
    all_props = "--all-props" in args
    args = [a for a in args if not a.startswith("--")]
    dirs = args or sorted(glob.glob(os.path.join(VERIF, "seeded", "*"))) + sorted(glob.glob("/tmp/agents/out/*/[0-9]*"))
    with ThreadPoolExecutor(8) as ex:
        out = list(ex.map(lambda d: run_one(d, all_props), dirs))
    caught = 0
    for d, prop, res in out:
        if not isinstance(res, dict):
            print(f"{d}: {res}")
            continue
        own = res.get(prop, (None, []))
        others = [p for p, (rc, _) in res.items() if rc == 1 and p != prop]
        status = {0: "MISSED", 1: "CAUGHT", 2: "ANALYSIS-ERROR"}.get(own[0], str(own[0]))
        caught += own[0] == 1
        print(f"{d}: {prop} {status}" + (f" (also: {','.join(others)})" if others else ""))
        for l in own[1][:3]:
            print("     " + l.strip()[:230])
    print(f"caught {caught}/{len(out)}")

if __name__ == "__main__":
    main()
