#!/bin/bash
# usage: tools/tryvar.sh <variant dir> <property> [more dropstat args]  — apply patch to a scratch copy and run one check on it
d=$(realpath "$1"); p=$2; shift 2
tmp=$(mktemp -d /tmp/tryvar_XXXX)
cp -r /repo/droplets "$tmp/droplets"
(cd "$tmp" && patch -p1 -s -f -i "$d/patch.diff") || { echo PATCH-FAILED; rm -rf "$tmp"; exit 3; }
(cd /verif && DROPSTAT_NO_EVIDENCE=1 /venv/bin/python -m dropstat check "$p" --root "$tmp" "$@" 2>&1 | grep -v "^  HOLDS\|^     HOLD")
rc=$?
rm -rf "$tmp"
