#!/venv/bin/python
"""print the surviving mutants of the last thorough run of a property"""
import json, sys
for p in sys.argv[1:]:
    e = json.load(open(f'/verif/evidence/{p}.json'))
    l = e['coverage'].get('liveness')
    if not l:
        print(p, "no liveness data"); continue
    mu = l['mutants']
    print(f"== {p}: {mu['killed']} killed, {mu['analysis_error']} analysis-error, {mu['survived']} survived of {mu['evaluated']} (ratio {mu['kill_ratio']}); seeded caught {len(l['seeded']['caught'])} missed {l['seeded']['missed']}")
    for s in mu['survivor_samples']:
        print("   ", s)
