#!/venv/bin/python
"""Run every check against behaviour-preserving variants: any exit code other than 0 is a
false alarm (1) or an unrecognised idiom (2).  usage: tools/benigntest.py [dir ...]"""
import glob, json, os, shutil, subprocess, sys, tempfile
from concurrent.futures import ThreadPoolExecutor

VERIF = os.path.dirname(os.path.dirname(os.path.abspath(__file__)))
PROPS = ["C01","C03","C04","C06","C07","C08","C09","C10","C11","C12","C13","C14","C15","C16","C17","C18","C19","C20"]

def run_one(d):
    d = os.path.abspath(d)
    patch = os.path.join(d, "patch.diff")
    tmp = tempfile.mkdtemp(prefix="benign_")
    try:
        shutil.copytree("/repo/droplets", os.path.join(tmp, "droplets"), ignore=shutil.ignore_patterns("__pycache__", "resources"))
        r = subprocess.run(["patch", "-p1", "-s", "-f", "-i", patch], cwd=tmp, capture_output=True, text=True)
        if r.returncode != 0:
            return d, "PATCH-FAILED", {}
        res = {}
        for p in PROPS:
            env = dict(os.environ, DROPSTAT_NO_EVIDENCE="1")
            r = subprocess.run(["/venv/bin/python", "-m", "dropstat", "check", p, "--root", tmp], cwd=VERIF, capture_output=True, text=True, env=env)
            if r.returncode != 0:
                lines = [l.strip() for l in r.stdout.splitlines() if "VIOLATED" in l or "ANALYSIS-ERROR" in l]
                res[p] = (r.returncode, lines[:4])
        return d, "ok", res
    finally:
        shutil.rmtree(tmp, ignore_errors=True)

def main():
    dirs = sys.argv[1:] or sorted(glob.glob(os.path.join(VERIF, "benign", "*")))
    with ThreadPoolExecutor(12) as ex:
        out = list(ex.map(run_one, dirs))
    bad = 0
    for d, st, res in out:
        if st != "ok":
            print(f"{d}: {st}")
            continue
        if res:
            bad += 1
            print(f"{d}:")
            for p, (rc, lines) in res.items():
                print(f"   {p} rc={rc}")
                for l in lines:
                    print("      " + l[:260])
    print(f"{len(out)} variants, {bad} with alarms")

if __name__ == "__main__":
    main()
